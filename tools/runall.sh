#!/bin/bash
# usage: tools/runall.sh <seed> [tier]  — run every registered check once, print one line each
SEED=${1:-1}; TIER=${2:-quick}
for p in $(python3 -c "import json;print(' '.join(c['property_id'] for c in json.load(open('/verif/MANIFEST.json'))['checks']))"); do
  s=$(date +%s); out=$(VERIF_SEED=$SEED ./check $p --tier $TIER 2>&1); rc=$?; e=$(date +%s)
  echo "$p rc=$rc $((e-s))s $(echo "$out" | grep -c VIOLATION) violations; $(echo "$out" | grep -E "^C[0-9]+ (quick|thorough)|HARNESS" | cut -c1-120)"
  if [ $rc -ne 0 ]; then echo "$out" | grep -E "VIOLATION|HARNESS|^  " | head -8; fi
done
