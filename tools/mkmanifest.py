#!/usr/bin/env python3
"""Regenerates MANIFEST.json from drivers/props.py (run by hand after editing props)."""
import json, os, sys, subprocess
ROOT = os.path.dirname(os.path.dirname(os.path.abspath(__file__)))
sys.path.insert(0, os.path.join(ROOT, 'drivers'))
from props import PROPS, NOT_APPLICABLE
hook_commits = subprocess.run(['git', '-C', '/repo', 'log', '--format=%h %s'], capture_output=True, text=True).stdout.splitlines()
hook_commits = [l.split()[0] for l in hook_commits if l.split(' ', 1)[1].startswith('verif-hooks')]
ids = [json.loads(l)['id'] for l in open(os.path.join(ROOT, 'properties.jsonl'))]
checks = []
for pid in ids:
    if pid not in PROPS:
        continue
    p = PROPS[pid]
    checks.append({
        'property_id': pid,
        'quick_cmd': f'./check {pid} --tier quick',
        'thorough_cmd': f'./check {pid} --tier thorough',
        'evidence_file': f'/verif/evidence/{pid}.json',
        'replay_cmd_template': f'./check {pid} --replay {{path}}',
        'engine': '+'.join(sorted({e[0] for e in p['engines']})),
        'level_claimed': {'category': p.get('level', 'exploration'), 'text': p['level_text'], 'design_ref': f'DESIGN.md §6/{pid}'},
        'level_note': p['level_note'],
        'technique': p['technique'],
    })
na = [{'property_id': pid, 'reason': NOT_APPLICABLE.get(pid, 'check not built yet (work in progress; see DESIGN.md §6 for the planned monitor)')}
      for pid in ids if pid not in PROPS]
m = {
    'version': 1,
    'setup_cmd': './check --setup',
    'hooks': {
        'guard': 'cargo feature verif-hooks (ast-grep-core, ast-grep-config, ast-grep-lsp, ast-grep CLI)',
        'enable': 'harness depends on /repo/crates/{core,config} with features=["verif-hooks"]; CLI: cargo build -p ast-grep --release --features verif-hooks --config profile.release.lto=false --target-dir /verif/target/sg',
        'baseline_off_cmd': 'cd /repo && cargo nextest run --workspace --no-fail-fast --tool-config-file pb:/w/lib/nextest.toml --profile pb --test-threads 8 --offline',
        'source_commits': hook_commits,
        'add_only': False,
    },
    'engines': [
        {'name': 'vmon', 'path': 'harness/', 'serves_properties': [k for k, v in PROPS.items() if any(e[0] == 'vmon' for e in v['engines'])],
         'kind_free_text': 'Rust harness linking the real ast-grep crates from /repo (feature verif-hooks, debug assertions and overflow checks on): in-process monitors = workload generators + reference-semantics oracles + hook event checkers'},
        {'name': 'py', 'path': 'drivers/', 'serves_properties': [k for k, v in PROPS.items() if any(e[0] == 'py' for e in v['engines'])],
         'kind_free_text': 'python3 stdlib drivers spawning the real ast-grep binary (hooked release build) over generated projects; oracles over stdout/JSON/file bytes/event logs/LSP histories'},
    ],
    'checks': checks,
    'not_applicable': na,
    'notes': 'All checks: exit 0 held / exit 1 VIOLATION / exit 2 HARNESS-ERROR (never a verdict). Known findings: known_findings.json. See DESIGN.md.',
}
json.dump(m, open(os.path.join(ROOT, 'MANIFEST.json'), 'w'), indent=1)
print('checks:', [c['property_id'] for c in checks], 'n/a:', len(na))
