#!/usr/bin/env python3
"""One-off corpus builder: copies small real source files found on this image into /verif/corpus/<Lang>/.
The result is committed; checks never run this script."""
import os, sys, glob, hashlib, re
PYG='/root/miniconda/pkgs/pygments-2.20.0-py313h06a4308_0/info/test/tests/examplefiles'
REG=glob.glob('/root/.cargo/registry/src/*')[0]
ISA='/opt/veriftools/tlapm/lib/tlapm/backends/Isabelle/src'
SRC={
 'Bash':(['sh'],[PYG+'/bash/*.sh','/usr/share/doc/git/contrib/**/*.sh','/usr/share/debconf/*.sh','/usr/lib/git-core/git-sh-*']),
 'C':(['c'],[PYG+'/c/*.c',REG+'/tree-sitter-*/src/scanner.c',REG+'/tree-sitter-*/bindings/**/*.c','/usr/share/doc/git/contrib/**/*.c']),
 'Cpp':(['cpp'],[PYG+'/cpp/*.cpp',REG+'/**/*.cc',PYG+'/cuda/*.cu']),
 'CSharp':(['cs'],[PYG+'/csharp/*.cs',PYG+'/aspx-cs/*.cs']),
 'Css':(['css'],[PYG+'/css/*.css','/usr/share/doc/**/*.css','/root/miniconda/**/*.css']),
 'Elixir':(['ex'],[PYG+'/elixir/*.ex',PYG+'/iex/*']),
 'Go':(['go'],[PYG+'/go/*.go','/usr/share/doc/git/contrib/persistent-https/*.go','/root/miniconda/pkgs/tomlkit*/info/test/tests/toml-test/**/*.go']),
 'Haskell':(['hs'],[PYG+'/haskell/*.hs',ISA+'/HOL/Tools/Quickcheck/*.hs']),
 'Html':(['html'],[PYG+'/html/*','/usr/share/doc/git/**/*.html']),
 'Java':(['java'],[PYG+'/java/*.java',REG+'/honggfuzz-*/honggfuzz/third_party/android/capstone/bindings/java/*.java']),
 'JavaScript':(['js'],[PYG+'/js/*.js',PYG+'/jsx/*.jsx','/opt/veriftools/**/*.mjs','/usr/share/javascript/**/*.js', '/root/miniconda/lib/python3*/site-packages/**/*.js']),
 'Json':(['json'],['/repo/schemas/*.json','/repo/npm/**/package.json','/repo/renovate.json',PYG+'/json/*.json']),
 'Kotlin':(['kt'],[PYG+'/kotlin/*.kt']),
 'Lua':(['lua'],[PYG+'/lua/*.lua']),
 'Php':(['php'],[PYG+'/php/*.php']),
 'Python':(['py'],['/usr/lib/python3/dist-packages/*.py','/usr/lib/python3.11/*.py',PYG+'/python/*.py']),
 'Ruby':(['rb'],[PYG+'/rb/*.rb']),
 'Rust':(['rs'],['/repo/crates/core/src/**/*.rs','/repo/crates/config/src/**/*.rs','/repo/crates/cli/src/**/*.rs',PYG+'/rust/*.rs']),
 'Scala':(['scala'],[PYG+'/scala/*.scala',ISA+'/Pure/Isar/*.scala']),
 'Swift':(['swift'],[PYG+'/swift/*.swift']),
 'Tsx':(['tsx'],['/opt/veriftools/mathlib4/.lake/packages/proofwidgets/widget/src/*.tsx',PYG+'/tsx/*.tsx']),
 'TypeScript':(['ts'],[PYG+'/ts/*.ts','/opt/veriftools/mathlib4/.lake/packages/proofwidgets/widget/src/*.ts','/repo/npm/**/*.ts','/repo/crates/napi/**/*.ts']),
 'Yaml':(['yml'],['/repo/.github/**/*.yml','/repo/crates/cli/tests/**/*.yml',PYG+'/yaml/*.yaml','/repo/*.yml','/repo/.*.yml','/repo/.*.yaml']),
}
MAXF=14; MAXB=9000; CH=110
def chunks(text):
    lines=text.split('\n')
    if len(text)<=MAXB: return [text]
    out=[];cur=[]
    for ln in lines:
        cur.append(ln)
        if len(cur)>=CH and ln.strip()=='' :
            out.append('\n'.join(cur));cur=[]
        elif len(cur)>=2*CH:
            out.append('\n'.join(cur));cur=[]
    if cur: out.append('\n'.join(cur))
    return [c for c in out if 200<len(c)<=2*MAXB]
root='/verif/corpus'
for lang,(exts,pats) in SRC.items():
    d=os.path.join(root,lang); os.makedirs(d,exist_ok=True)
    seen=set(); n=0
    files=[]
    for p in pats:
        fs=sorted(glob.glob(p,recursive=True))
        files+= [f for f in fs if os.path.isfile(f)]
    for f in files:
        if n>=MAXF: break
        try: t=open(f,'rb').read().decode('utf-8')
        except Exception: continue
        if len(t)<120 or len(t)>400000 or '\r' in t: continue
        if t.startswith('﻿'): t=t[1:]
        cs=chunks(t)
        # at most 4 chunks per original file, spread
        if len(cs)>4: cs=[cs[0],cs[len(cs)//3],cs[2*len(cs)//3],cs[-1]]
        for i,c in enumerate(cs):
            if n>=MAXF: break
            h=hashlib.sha1(c.encode()).hexdigest()[:8]
            if h in seen: continue
            seen.add(h)
            base=re.sub(r'[^A-Za-z0-9_]','_',os.path.splitext(os.path.basename(f))[0])[:24]
            name=f'{n:02d}_{base}_{i}.{exts[0]}'
            if not c.endswith('\n'): c+='\n'
            open(os.path.join(d,name),'w').write(c); n+=1
    print(lang,n)
