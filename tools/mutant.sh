#!/bin/bash
# tools/mutant.sh <seeded-id> [tier] [Cxx ...]
# Apply /verif/seeded/<id>/patch.diff to /repo's working tree, run the checks of the property it
# breaks (or the listed ones), print their verdicts, and always restore the tree afterwards.
set -u
ID=$1; TIER=${2:-quick}; shift; shift || true
D=/verif/seeded/$ID
[ -f $D/patch.diff ] || { echo "no $D/patch.diff"; exit 2; }
PROPS="$*"
[ -n "$PROPS" ] || PROPS=$(python3 -c "import json;print(' '.join(json.load(open('$D/meta.json'))['checks']))")
if [ -n "$(git -C /repo status --porcelain --untracked-files=no)" ]; then echo "/repo working tree is not clean"; exit 2; fi
trap 'git -C /repo checkout -- . ; git -C /repo clean -fdq crates >/dev/null 2>&1' EXIT
git -C /repo apply $D/patch.diff || exit 2
mkdir -p /verif/out/mutants
for P in $PROPS; do
  L=/verif/out/mutants/$ID-$P-$TIER.log
  ( cd /verif && VERIF_SEED=${VERIF_SEED:-1} ./check $P --tier $TIER ) > $L 2>&1; RC=$?
  SIGS=$(grep -B1 '^VIOLATION' $L | grep -v '^VIOLATION\|^--' | sed 's/^ *//' | cut -c1-150 | sort -u | head -4 | tr '\n' ';')
  echo "MUTANT $ID check=$P tier=$TIER rc=$RC $(grep -c '^VIOLATION' $L) violation lines :: $SIGS"
done
