//! Generators shared by several monitors: the pattern cutter.
use crate::rng::Rng;
use crate::util::{has_error_or_missing, N};

#[derive(Clone, Debug)]
pub struct Cut {
  /// pattern text
  pub pattern: String,
  /// byte range of the originating node
  pub node: std::ops::Range<usize>,
  pub node_kind: String,
  /// (variable, byte range) for single holes
  pub singles: Vec<(String, std::ops::Range<usize>)>,
  /// (variable, ranges of the named members) for a trailing `$$$V`
  pub multi: Option<(String, Vec<std::ops::Range<usize>>)>,
}

/// candidates: error-free named nodes with moderate size
pub fn cut_sites<'a>(root: &N<'a>, max_len: usize) -> Vec<N<'a>> {
  root
    .dfs()
    .filter(|n| n.is_named() && !n.range().is_empty() && n.range().len() <= max_len && n.parent().is_some())
    .filter(|n| !has_error_or_missing(n))
    .collect()
}

fn named_descendants<'a>(n: &N<'a>) -> Vec<N<'a>> {
  n.dfs().skip(1).filter(|d| d.is_named() && !d.range().is_empty()).collect()
}

/// cut `k` holes (non-overlapping named descendants) out of node `n`
pub fn cut_singles(n: &N, k: usize, rng: &mut Rng) -> Option<Cut> {
  let text = n.text().to_string();
  let base = n.range().start;
  let mut chosen: Vec<std::ops::Range<usize>> = vec![];
  if k > 0 {
    let mut ds = named_descendants(n);
    if ds.is_empty() {
      return None;
    }
    rng.shuffle(&mut ds);
    for d in ds {
      let r = d.range();
      if r == n.range() {
        continue;
      }
      if chosen.iter().all(|c| c.end <= r.start || r.end <= c.start) {
        chosen.push(r);
        if chosen.len() == k {
          break;
        }
      }
    }
    if chosen.is_empty() {
      return None;
    }
  }
  chosen.sort_by_key(|r| r.start);
  let mut pattern = String::new();
  let mut at = 0;
  let mut singles = vec![];
  for (i, r) in chosen.iter().enumerate() {
    let name = format!("V{i}");
    pattern.push_str(&text[at..r.start - base]);
    pattern.push('$');
    pattern.push_str(&name);
    at = r.end - base;
    singles.push((name, r.clone()));
  }
  pattern.push_str(&text[at..]);
  Some(Cut { pattern, node: n.range(), node_kind: n.kind().to_string(), singles, multi: None })
}

/// replace a trailing run of named children (from the i-th named child to the last) by `$$$V`
pub fn cut_trailing(n: &N, rng: &mut Rng) -> Option<Cut> {
  let named: Vec<N> = n.children().filter(|c| c.is_named() && !c.range().is_empty()).collect();
  if named.len() < 2 {
    return None;
  }
  let i = rng.below(named.len());
  let start = named[i].range().start;
  let end = named[named.len() - 1].range().end;
  let text = n.text().to_string();
  let base = n.range().start;
  let pattern = format!("{}$$$V{}", &text[..start - base], &text[end - base..]);
  Some(Cut {
    pattern,
    node: n.range(),
    node_kind: n.kind().to_string(),
    singles: vec![],
    multi: Some(("V".into(), named[i..].iter().map(|x| x.range()).collect())),
  })
}
