//! Shared helpers: panic capture, node helpers, line tables.
use ast_grep_core::{Doc, Node, StrDoc};
use ast_grep_language::SupportLang;
use std::cell::RefCell;
use std::panic::{catch_unwind, AssertUnwindSafe};

pub type N<'a> = Node<'a, StrDoc<SupportLang>>;

thread_local! {
  static LAST_PANIC: RefCell<Option<(String, String)>> = const { RefCell::new(None) };
}

pub fn install_panic_hook() {
  std::panic::set_hook(Box::new(|info| {
    let loc = info
      .location()
      .map(|l| format!("{}:{}", l.file(), l.line()))
      .unwrap_or_else(|| "?".into());
    let msg = if let Some(s) = info.payload().downcast_ref::<&str>() {
      s.to_string()
    } else if let Some(s) = info.payload().downcast_ref::<String>() {
      s.clone()
    } else {
      "<non-string panic>".to_string()
    };
    LAST_PANIC.with(|p| *p.borrow_mut() = Some((loc, msg)));
  }));
}

pub struct PanicInfo {
  pub location: String,
  pub message: String,
}

impl PanicInfo {
  /// stable signature fragment: repo-relative file (no line) + normalised message
  pub fn site(&self) -> String {
    let file = self.location.rsplit_once(':').map(|x| x.0).unwrap_or(&self.location);
    let file = file
      .strip_prefix("/repo/")
      .unwrap_or(file)
      .to_string();
    let file = if let Some(i) = file.find("/registry/src/") {
      // third-party crate: keep crate-relative path
      file[i + 14..].splitn(2, '/').nth(1).unwrap_or(&file).to_string()
    } else {
      file
    };
    let mut msg: String = self
      .message
      .chars()
      .map(|c| if c.is_ascii_digit() { '#' } else { c })
      .collect();
    while msg.contains("##") {
      msg = msg.replace("##", "#");
    }
    let msg: String = msg.chars().take(60).collect();
    format!("{}/{}", file, msg.replace(['\n', '/'], " "))
  }
}

/// Run `f`, converting a panic into Err with its location and message.
pub fn guarded<T>(f: impl FnOnce() -> T) -> Result<T, PanicInfo> {
  LAST_PANIC.with(|p| *p.borrow_mut() = None);
  match catch_unwind(AssertUnwindSafe(f)) {
    Ok(v) => Ok(v),
    Err(_) => {
      let (location, message) = LAST_PANIC
        .with(|p| p.borrow_mut().take())
        .unwrap_or(("?".into(), "?".into()));
      Err(PanicInfo { location, message })
    }
  }
}

pub fn is_missing(n: &N) -> bool {
  n.get_ts_node().is_missing()
}

pub fn has_error_or_missing(n: &N) -> bool {
  n.dfs().any(|d| d.is_error() || is_missing(&d))
}

/// independent line/column computation from the byte offset: (line, character column)
pub fn line_col(src: &str, off: usize) -> (usize, usize) {
  let b = src.as_bytes();
  let off = off.min(b.len());
  let line = b[..off].iter().filter(|c| **c == b'\n').count();
  let ls = b[..off]
    .iter()
    .rposition(|c| *c == b'\n')
    .map(|i| i + 1)
    .unwrap_or(0);
  (line, String::from_utf8_lossy(&b[ls..off]).chars().count())
}

pub fn clip(s: &str, n: usize) -> String {
  if s.chars().count() <= n {
    s.to_string()
  } else {
    let t: String = s.chars().take(n).collect();
    format!("{t}…")
  }
}

pub fn lang_of(name: &str) -> SupportLang {
  name.parse().expect("language name")
}

pub fn children<'a>(n: &N<'a>) -> Vec<N<'a>> {
  n.children().collect()
}

pub fn doc_src<'a, D: Doc>(_n: &Node<'a, D>) {}

/// progress marker for triage: the description of the case being executed is written to the
/// file named by VMON_TRACE (overwritten each time)
pub fn trace(desc: &dyn Fn() -> String) {
  if let Ok(p) = std::env::var("VMON_TRACE") {
    let _ = std::fs::write(p, desc());
  }
}
