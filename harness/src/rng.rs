//! splitmix64; everything random in the harness derives from VERIF_SEED through this.
#[derive(Clone)]
pub struct Rng(pub u64);
impl Rng {
  pub fn new(seed: u64) -> Self {
    let mut r = Rng(seed ^ 0x9E37_79B9_7F4A_7C15);
    r.next();
    r
  }
  pub fn derive(&self, tag: u64) -> Rng {
    let mut r = Rng(self.0 ^ tag.wrapping_mul(0xD6E8_FEB8_6659_FD93));
    r.next();
    r.next();
    r
  }
  pub fn next(&mut self) -> u64 {
    self.0 = self.0.wrapping_add(0x9E37_79B9_7F4A_7C15);
    let mut z = self.0;
    z = (z ^ (z >> 30)).wrapping_mul(0xBF58_476D_1CE4_E5B9);
    z = (z ^ (z >> 27)).wrapping_mul(0x94D0_49BB_1331_11EB);
    z ^ (z >> 31)
  }
  pub fn below(&mut self, n: usize) -> usize {
    if n == 0 {
      0
    } else {
      (self.next() % n as u64) as usize
    }
  }
  pub fn range(&mut self, lo: i64, hi: i64) -> i64 {
    lo + (self.next() % ((hi - lo + 1) as u64)) as i64
  }
  pub fn chance(&mut self, num: u64, den: u64) -> bool {
    self.next() % den < num
  }
  pub fn pick<'a, T>(&mut self, v: &'a [T]) -> &'a T {
    &v[self.below(v.len())]
  }
  pub fn shuffle<T>(&mut self, v: &mut [T]) {
    for i in (1..v.len()).rev() {
      let j = self.below(i + 1);
      v.swap(i, j);
    }
  }
}

pub fn hash_str(s: &str) -> u64 {
  // FNV-1a 64
  let mut h: u64 = 0xcbf29ce484222325;
  for b in s.as_bytes() {
    h ^= *b as u64;
    h = h.wrapping_mul(0x100000001b3);
  }
  h
}
pub fn hash_parts(parts: &[&str]) -> u64 {
  let mut h: u64 = 0xcbf29ce484222325;
  for p in parts {
    for b in p.as_bytes() {
      h ^= *b as u64;
      h = h.wrapping_mul(0x100000001b3);
    }
    h ^= 0xff;
    h = h.wrapping_mul(0x100000001b3);
  }
  h
}
