//! Corpus loader and source mutators.
use crate::rng::Rng;
use ast_grep_language::SupportLang;
use std::path::Path;

#[derive(Clone)]
pub struct SrcFile {
  pub lang: SupportLang,
  pub name: String,
  pub text: String,
}

pub fn corpus_dir() -> String {
  std::env::var("VERIF_CORPUS").unwrap_or_else(|_| "/verif/corpus".to_string())
}

/// All languages, optionally narrowed by VERIF_LANGS ("Swift,Go" keeps only those,
/// "-Swift,-Go" drops those). Used by the sanitizer passes to run one language per process.
pub fn all_langs() -> Vec<SupportLang> {
  let all = SupportLang::all_langs().to_vec();
  let Ok(f) = std::env::var("VERIF_LANGS") else { return all };
  let items: Vec<&str> = f.split(',').map(|s| s.trim()).filter(|s| !s.is_empty()).collect();
  if items.is_empty() {
    return all;
  }
  let neg: Vec<&str> = items.iter().filter_map(|s| s.strip_prefix('-')).collect();
  let pos: Vec<&str> = items.iter().filter(|s| !s.starts_with('-')).cloned().collect();
  all
    .into_iter()
    .filter(|l| {
      let n = lang_name(*l);
      (pos.is_empty() || pos.iter().any(|p| p.eq_ignore_ascii_case(&n)))
        && !neg.iter().any(|p| p.eq_ignore_ascii_case(&n))
    })
    .collect()
}

pub fn lang_name(l: SupportLang) -> String {
  format!("{:?}", l)
}

pub fn load_lang(lang: SupportLang) -> Vec<SrcFile> {
  let dir = format!("{}/{}", corpus_dir(), lang_name(lang));
  let mut names: Vec<String> = match std::fs::read_dir(&dir) {
    Ok(rd) => rd
      .filter_map(|e| e.ok())
      .map(|e| e.file_name().to_string_lossy().to_string())
      .collect(),
    Err(_) => vec![],
  };
  names.sort();
  let mut out = vec![];
  let mut seen = std::collections::HashSet::new();
  for n in names {
    let p = Path::new(&dir).join(&n);
    if let Ok(text) = std::fs::read_to_string(&p) {
      if seen.insert(crate::rng::hash_str(&text)) {
        out.push(SrcFile {
          lang,
          name: format!("{}/{}", lang_name(lang), n),
          text,
        });
      }
    }
  }
  out
}

pub fn load_all() -> Vec<SrcFile> {
  all_langs().into_iter().flat_map(load_lang).collect()
}

/// (shard index, shard count) selection of files: round robin over the whole corpus
pub fn shard<T: Clone>(items: &[T], idx: usize, n: usize) -> Vec<T> {
  items
    .iter()
    .enumerate()
    .filter(|(i, _)| i % n == idx)
    .map(|(_, t)| t.clone())
    .collect()
}

fn char_boundaries(s: &str) -> Vec<usize> {
  let mut v: Vec<usize> = s.char_indices().map(|(i, _)| i).collect();
  v.push(s.len());
  v
}

/// token-ish spans: maximal runs of identifier chars or single punctuation
pub fn tokens(s: &str) -> Vec<(usize, usize)> {
  let mut out = vec![];
  let b = s.as_bytes();
  let mut i = 0;
  while i < b.len() {
    let c = b[i];
    if c.is_ascii_alphanumeric() || c == b'_' {
      let st = i;
      while i < b.len() && (b[i].is_ascii_alphanumeric() || b[i] == b'_') {
        i += 1;
      }
      out.push((st, i));
    } else if c.is_ascii_whitespace() || c >= 0x80 {
      i += 1;
    } else {
      out.push((i, i + 1));
      i += 1;
    }
  }
  out
}

#[derive(Clone, Copy, Debug, PartialEq)]
pub enum Mutation {
  DeleteToken,
  DupToken,
  InsertMultiByte,
  Crlf,
  NoTrailingNewline,
  Truncate,
  SwapTokens,
  LongLine,
  LoneCr,
}

pub const MUTATIONS: &[Mutation] = &[
  Mutation::DeleteToken,
  Mutation::DupToken,
  Mutation::InsertMultiByte,
  Mutation::Crlf,
  Mutation::NoTrailingNewline,
  Mutation::Truncate,
  Mutation::SwapTokens,
  Mutation::LongLine,
  Mutation::LoneCr,
];

pub fn mutate(src: &str, m: Mutation, rng: &mut Rng) -> String {
  let toks = tokens(src);
  match m {
    Mutation::DeleteToken if !toks.is_empty() => {
      let (a, b) = toks[rng.below(toks.len())];
      format!("{}{}", &src[..a], &src[b..])
    }
    Mutation::DupToken if !toks.is_empty() => {
      let (a, b) = toks[rng.below(toks.len())];
      format!("{}{} {}", &src[..b], &src[a..b], &src[b..])
    }
    Mutation::SwapTokens if toks.len() > 2 => {
      let i = rng.below(toks.len() - 1);
      let (a, b) = toks[i];
      let (c, d) = toks[i + 1];
      format!("{}{}{}{}{}", &src[..a], &src[c..d], &src[b..c], &src[a..b], &src[d..])
    }
    Mutation::InsertMultiByte => {
      let bs = char_boundaries(src);
      let at = bs[rng.below(bs.len())];
      let ins = *rng.pick(&["é", "日本", "🦀", "ß", " /* ü */ ", "\u{100000}", "\u{10FFFF}x", "\u{F0000}"]);
      format!("{}{}{}", &src[..at], ins, &src[at..])
    }
    Mutation::Crlf => src.replace('\n', "\r\n"),
    // one very long line (minified file) with multi-byte characters early on it
    Mutation::LongLine => {
      // a prefix of the file is enough: positions on one long line cost O(length) each
      let mut cut = src.len().min(1500);
      while !src.is_char_boundary(cut) {
        cut -= 1;
      }
      let base = src[..cut].replace('\n', " ");
      let mut one: String = format!("é日本🦀 {base}");
      while one.len() < 4400 && !base.trim().is_empty() {
        one = format!("{one} {base}");
      }
      one
    }
    // a lone carriage return in the middle of a line is not a line break
    Mutation::LoneCr => {
      let bs = char_boundaries(src);
      let at = bs[rng.below(bs.len())];
      format!("{}\r{}", &src[..at], &src[at..])
    }
    Mutation::NoTrailingNewline => src.trim_end_matches('\n').to_string(),
    Mutation::Truncate => {
      let bs = char_boundaries(src);
      let at = bs[bs.len() / 2 + rng.below(bs.len() / 2 + 1).min(bs.len() - 1 - bs.len() / 2)];
      src[..at].to_string()
    }
    _ => src.to_string(),
  }
}
