//! What a monitor run reports to the orchestrator (one JSON file per shard).
use serde_json::{json, Value};
use std::collections::{BTreeMap, HashSet};

#[derive(Default)]
pub struct Report {
  pub evaluations: u64,
  pub nontrivial: HashSet<u64>,
  pub samples: Vec<Value>,
  pub counters: BTreeMap<String, u64>,
  pub violations: Vec<Value>,
  pub viol_sigs: BTreeMap<String, u64>,
  pub inconclusive: u64,
  pub notes: Vec<String>,
  pub max_viol_per_sig: u64,
}

impl Report {
  pub fn new() -> Self {
    Report {
      max_viol_per_sig: 3,
      ..Default::default()
    }
  }
  pub fn count(&mut self, k: &str, by: u64) {
    *self.counters.entry(k.to_string()).or_insert(0) += by;
  }
  pub fn nontrivial(&mut self, h: u64) {
    self.nontrivial.insert(h);
  }
  pub fn sample(&mut self, v: Value) {
    if self.samples.len() < 6 {
      self.samples.push(v);
    }
  }
  /// record a violation; at most `max_viol_per_sig` witnesses are kept per signature
  pub fn violation(&mut self, signature: &str, what: &str, replay: Value) {
    let n = self.viol_sigs.entry(signature.to_string()).or_insert(0);
    *n += 1;
    if *n <= self.max_viol_per_sig {
      self
        .violations
        .push(json!({"signature": signature, "what": what, "replay": replay}));
    }
  }
  pub fn to_json(&self) -> Value {
    json!({
      "evaluations": self.evaluations,
      "distinct_nontrivial": self.nontrivial.len(),
      "samples": self.samples,
      "counters": self.counters,
      "violations": self.violations,
      "violation_counts": self.viol_sigs,
      "inconclusive": self.inconclusive,
      "notes": self.notes,
    })
  }
}
