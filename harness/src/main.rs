//! vmon — in-process runtime monitors for ast-grep (see /verif/DESIGN.md).
mod corpus;
mod gen;
mod mon;
mod refsem;
mod report;
mod rng;
mod util;

use report::Report;

pub struct Ctx {
  pub seed: u64,
  pub thorough: bool,
  pub shard: usize,
  pub nshards: usize,
  pub replay: Option<serde_json::Value>,
  /// scale factor for budgets (VERIF_SCALE, default 1.0)
  pub scale: f64,
  pub args: Vec<String>,
}

impl Ctx {
  pub fn budget(&self, quick: usize, thorough: usize) -> usize {
    let b = if self.thorough { thorough } else { quick };
    ((b as f64) * self.scale / self.nshards as f64).ceil() as usize
  }
  pub fn rng(&self, tag: &str) -> rng::Rng {
    rng::Rng::new(self.seed)
      .derive(rng::hash_str(tag))
      .derive(self.shard as u64 + 1)
  }
}

fn main() {
  let args: Vec<String> = std::env::args().collect();
  if args.len() < 2 {
    eprintln!("usage: vmon <monitor> [--seed S] [--tier quick|thorough] [--shard i/n] [--out file] [--replay file]");
    std::process::exit(2);
  }
  let mon = args[1].clone();
  let mut ctx = Ctx {
    seed: 1,
    thorough: false,
    shard: 0,
    nshards: 1,
    replay: None,
    scale: std::env::var("VERIF_SCALE")
      .ok()
      .and_then(|s| s.parse().ok())
      .unwrap_or(1.0),
    args: vec![],
  };
  let mut out: Option<String> = None;
  let mut i = 2;
  while i < args.len() {
    match args[i].as_str() {
      "--seed" => {
        ctx.seed = args[i + 1].parse().expect("seed");
        i += 2;
      }
      "--tier" => {
        ctx.thorough = args[i + 1] == "thorough";
        i += 2;
      }
      "--shard" => {
        let (a, b) = args[i + 1].split_once('/').expect("i/n");
        ctx.shard = a.parse().unwrap();
        ctx.nshards = b.parse().unwrap();
        i += 2;
      }
      "--out" => {
        out = Some(args[i + 1].clone());
        i += 2;
      }
      "--replay" => {
        let text = std::fs::read_to_string(&args[i + 1]).expect("replay file");
        let v: serde_json::Value = serde_json::from_str(&text).expect("replay json");
        // accept either the bare replay object or a wrapper with a "replay" key
        ctx.replay = Some(v.get("replay").cloned().unwrap_or(v));
        i += 2;
      }
      other => {
        ctx.args.push(other.to_string());
        i += 1;
      }
    }
  }
  util::install_panic_hook();
  let mut rep = Report::new();
  let t0 = std::time::Instant::now();
  let known = match util::guarded(|| mon::run(&mon, &ctx, &mut rep)) {
    Ok(k) => k,
    Err(p) => {
      eprintln!("vmon {mon}: uncaught panic at {}: {}", p.location, p.message);
      std::process::exit(3);
    }
  };
  if !known {
    eprintln!("unknown monitor {mon}");
    std::process::exit(2);
  }
  let mut j = rep.to_json();
  j["monitor"] = serde_json::json!(mon);
  j["seed"] = serde_json::json!(ctx.seed);
  j["shard"] = serde_json::json!(format!("{}/{}", ctx.shard, ctx.nshards));
  j["wall_s"] = serde_json::json!(t0.elapsed().as_secs_f64());
  let text = serde_json::to_string(&j).unwrap();
  match out {
    Some(p) => std::fs::write(p, text).expect("write out"),
    None => println!("{text}"),
  }
}
