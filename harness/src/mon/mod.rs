use crate::{Ctx, Report};
pub mod c01;
pub mod c02;
pub mod c03;
pub mod c04;
pub mod c05;
pub mod c06;
pub mod c07;
pub mod c08;
pub mod c10;
pub mod c11;
pub mod c12;
pub mod c14;
pub mod c19;
pub mod c20;
pub mod probe;

pub fn run(name: &str, ctx: &Ctx, rep: &mut Report) -> bool {
  match name {
    "c01" => c01::run(ctx, rep),
    "c01-expect" => c01::expect(ctx, rep),
    "c02" => c02::run(ctx, rep),
    "c03" => c03::run(ctx, rep),
    "c04" => c04::run(ctx, rep),
    "c05" => c05::run(ctx, rep),
    "c06" => c06::run(ctx, rep),
    "c07" => c07::run(ctx, rep),
    "c08-lib" => c08::lib(ctx, rep),
    "c10" => c10::run(ctx, rep),
    "c11" => c11::run(ctx, rep),
    "c12" => c12::run(ctx, rep),
    "c14" => c14::run(ctx, rep),
    "c14-files" => c14::files(ctx, rep),
    "c19" => c19::run(ctx, rep),
    "c20" => c20::run(ctx, rep),
    "probe" => probe::run(ctx, rep),
    "patdbg" => probe::patdbg(ctx, rep),
    _ => return false,
  }
  true
}
