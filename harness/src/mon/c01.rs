//! C01 — search is complete: no index or prefilter drops or invents a match (library side).
//! Three voices: differential (find_all / non-reentrant visitor / CombinedScan vs per-node
//! match_node over a DFS), the H1 prune assertions, and (in C05) the reference evaluator.
//! Also `c01-expect`: the library's answer for a list of CLI queries (used by the CLI driver).
use crate::corpus::{self, SrcFile, MUTATIONS};
use crate::gen;
use crate::mon::c05::{core_yaml, disjoint_patterns, excerpt, field_names};
use crate::refsem::align::ALL_S;
use crate::refsem::rule::{self, GenCfg, R};
use crate::rng::{hash_parts, Rng};
use crate::util::{clip, guarded, N};
use crate::{Ctx, Report};
use ast_grep_config::{from_yaml_string, CombinedScan, GlobalRules, RuleConfig};
use ast_grep_core::matcher::{KindMatcher, Matcher, MatcherExt, RegexMatcher};
use ast_grep_core::traversal::Visitor;
use ast_grep_core::{Language, Pattern};
use ast_grep_language::SupportLang;
use serde_json::{json, Value};
use std::collections::BTreeMap;

type Key = (usize, usize, u16);
fn key(n: &N) -> Key {
  (n.range().start, n.range().end, n.kind_id())
}

fn take_prune_events() -> Vec<String> {
  ast_grep_core::verif::mem_take().into_iter().filter(|l| l.contains("\"prune_violation\"")).collect()
}

fn report_prune(rep: &mut Report, what: &str, replay: &Value) {
  for ev in take_prune_events() {
    let v: Value = serde_json::from_str(&ev).unwrap_or(Value::Null);
    let site = v["site"].as_str().unwrap_or("?").to_string();
    rep.violation(&format!("C01/prune/{site}"), &format!("{what}: the acceleration at {site} skipped a node that matches ({})", v["detail"].as_str().unwrap_or("")), replay.clone());
  }
}

/// differential checks of one matcher on one tree
fn check_matcher<M: Matcher<SupportLang>>(m: &M, root: &N, desc: &str, class: &str, replay: &Value, rep: &mut Report) -> (usize, bool) {
  crate::util::trace(&|| replay.to_string());
  let r = guarded(|| {
    let brute: Vec<(Key, N)> = root.dfs().filter_map(|n| m.match_node(n.clone()).map(|_| (key(&n), n))).collect();
    let found: Vec<Key> = root.find_all(m).map(|nm| key(nm.get_node())).collect();
    let brute_keys: Vec<Key> = brute.iter().map(|x| x.0).collect();
    let brute_ids: std::collections::HashSet<usize> = brute.iter().map(|(_, n)| n.node_id()).collect();
    let mut out = vec![];
    if found != brute_keys {
      let kind = if found.len() < brute_keys.len() { "drops" } else if found.len() > brute_keys.len() { "invents" } else { "order-or-identity" };
      out.push((format!("C01/find_all/{kind}/{class}"), format!("{desc}: find_all reports {} nodes, per-node matching over the DFS {}", found.len(), brute_keys.len())));
    }
    // overlap-free traversal: only matches without a matching proper ancestor
    let outer: Vec<Key> = brute
      .iter()
      .filter(|(_, n)| {
        // identity by node id: an ERROR node can wrap another ERROR node of the same range and kind
        let mut cur = n.parent();
        while let Some(p) = cur {
          if brute_ids.contains(&p.node_id()) {
            return false;
          }
          cur = p.parent();
        }
        true
      })
      .map(|x| x.0)
      .collect();
    let got: Vec<Key> = Visitor::new(m).reentrant(false).visit(root.clone()).map(|nm| key(nm.get_node())).collect();
    if got != outer {
      if std::env::var("VMON_TRACE").is_ok() {
        eprintln!("brute {:?}\nouter {:?}\ngot {:?}", brute_keys, outer, got);
      }
      out.push((format!("C01/non-reentrant/{class}"), format!("{desc}: overlap-free traversal reports {} nodes, outermost matches are {}", got.len(), outer.len())));
    }
    (brute_keys.len(), m.potential_kinds().is_some(), out)
  });
  match r {
    Ok((n, has_kinds, out)) => {
      for (sig, what) in out {
        rep.violation(&sig, &what, replay.clone());
      }
      report_prune(rep, desc, replay);
      (n, has_kinds)
    }
    Err(p) => {
      take_prune_events();
      rep.violation(&format!("C01/panic/{}", p.site()), &format!("{desc}: panic at {}: {}", p.location, p.message), replay.clone());
      (0, false)
    }
  }
}

pub fn rule_yaml(id: &str, lname: &str, rule: &R, utils: &BTreeMap<String, R>, fix: Option<&str>) -> String {
  let core: Value = serde_json::from_str(&core_yaml(rule, utils)).unwrap();
  let mut m = core.as_object().unwrap().clone();
  m.insert("id".into(), json!(id));
  m.insert("language".into(), json!(lname));
  if let Some(f) = fix {
    m.insert("fix".into(), json!(f));
  }
  serde_json::to_string(&Value::Object(m)).unwrap()
}

pub fn load_rules(yamls: &[String]) -> Result<Vec<RuleConfig<SupportLang>>, String> {
  let mut out = vec![];
  for y in yamls {
    // for every other document, global utilities carrying the ids of its local utilities are registered as
    // well: a local utility shadows a global one of the same id, for matching and for the kind caches alike
    let globals = decoy_globals(y).unwrap_or_default();
    let mut v = from_yaml_string::<SupportLang>(y, &globals).map_err(|e| format!("{e:#}"))?;
    if v.len() != 1 {
      return Err("not one document".into());
    }
    out.push(v.remove(0));
  }
  Ok(out)
}

thread_local! {
  static NO_DECOY: std::cell::Cell<bool> = const { std::cell::Cell::new(false) };
}

/// Run a check that loads its documents through `load_rules`.  If it reports violations, it is run once more
/// without the decoy global utilities: a violation that disappears then is explained by a local utility
/// shadowing a global one of the same id and gets the signature suffix `/local-shadows-global`.
fn with_shadow_attribution(rep: &mut Report, recursive_util: bool, f: impl Fn(&mut Report)) {
  let mut first = Report::new();
  f(&mut first);
  if !first.viol_sigs.is_empty() {
    NO_DECOY.with(|c| c.set(true));
    let mut second = Report::new();
    f(&mut second);
    NO_DECOY.with(|c| c.set(false));
    let rename = |sig: &str| -> String {
      if second.viol_sigs.contains_key(sig) {
        sig.to_string()
      } else if recursive_util {
        // known: a self / forward reference is resolved while the local utility is not registered yet,
        // so the kind caches of all/any are computed from the global utility of the same id
        "C01/kind-cache/local-shadows-global/unregistered-at-construction".to_string()
      } else {
        format!("{sig}/local-shadows-global")
      }
    };
    let mut renamed = Report::new();
    for v in &first.violations {
      renamed.violation(&rename(v["signature"].as_str().unwrap()), v["what"].as_str().unwrap(), v["replay"].clone());
    }
    for (sig, n) in &first.viol_sigs {
      let e = renamed.viol_sigs.entry(rename(sig)).or_insert(0);
      if *e < *n {
        *e = *n;
      }
    }
    first.violations = renamed.violations;
    first.viol_sigs = renamed.viol_sigs;
  }
  crate::mon::c19::merge(rep, first);
}

/// does a local utility refer to a local utility from a place the registration order does not follow
/// (below a relation or a stop rule), or to itself?  Such a reference is resolved while its target may not be
/// registered yet -- the precondition of the known shadowing defect.
fn has_untracked_util_reference(yaml: &str) -> bool {
  fn walk(v: &Value, below_relation: bool, found: &mut bool) {
    match v {
      Value::Object(m) => {
        for (k, x) in m {
          if k == "matches" && below_relation {
            *found = true;
          }
          let rel = below_relation || matches!(k.as_str(), "has" | "inside" | "follows" | "precedes" | "stopBy");
          walk(x, rel, found);
        }
      }
      Value::Array(a) => a.iter().for_each(|x| walk(x, below_relation, found)),
      _ => {}
    }
  }
  let Ok(doc) = serde_json::from_str::<Value>(yaml) else { return false };
  let mut found = yaml.contains("\"UR\"");
  if let Some(utils) = doc.get("utils") {
    walk(utils, false, &mut found);
  }
  found
}

fn decoy_globals(yaml: &str) -> Option<GlobalRules<SupportLang>> {
  if NO_DECOY.with(|c| c.get()) || crate::rng::hash_str(yaml) % 2 == 0 {
    return None;
  }
  let doc: Value = serde_json::from_str(yaml).ok()?;
  let lname = doc["language"].as_str()?;
  let lang: SupportLang = lname.parse().ok()?;
  let names: Vec<&String> = doc["utils"].as_object()?.keys().collect();
  if names.is_empty() {
    return None;
  }
  let root_kind = lang.ast_grep("").root().kind().to_string();
  let mut sers = vec![];
  for n in names {
    let g = serde_json::to_string(&json!({"id": n, "language": lname, "rule": {"kind": root_kind}})).ok()?;
    sers.push(ast_grep_config::from_str(&g).ok()?);
  }
  ast_grep_config::DeserializeEnv::parse_global_utils(sers).ok()
}

/// CombinedScan of a rule set vs each rule alone
fn check_combined(rules: &[RuleConfig<SupportLang>], lang: SupportLang, src: &str, replay: &Value, rep: &mut Report) -> usize {
  crate::util::trace(&|| replay.to_string());
  let r = guarded(|| {
    let grep = lang.ast_grep(src);
    let root = grep.root();
    let mut out = vec![];
    let mut total = 0;
    let alone: BTreeMap<String, Vec<Key>> = rules
      .iter()
      .map(|r| (r.id.clone(), root.dfs().filter_map(|n| r.matcher.match_node(n.clone()).map(|_| key(&n))).collect()))
      .collect();
    for separate_fix in [false, true] {
      let scan = CombinedScan::new(rules.iter().collect());
      let res = scan.scan(&grep, separate_fix);
      let mut got: BTreeMap<String, Vec<Key>> = rules.iter().map(|r| (r.id.clone(), vec![])).collect();
      for (rule, nms) in &res.matches {
        got.entry(rule.id.clone()).or_default().extend(nms.iter().map(|nm| key(nm.get_node())));
      }
      for (rule, nm) in &res.diffs {
        if !separate_fix {
          out.push(("C01/combined/diffs-without-separate-fix".to_string(), "scan(separate_fix=false) produced diffs".to_string()));
        }
        got.entry(rule.id.clone()).or_default().push(key(nm.get_node()));
      }
      for (id, want) in &alone {
        total += want.len();
        let g = &got[id];
        if g != want {
          let kind = if g.len() < want.len() { "drops" } else if g.len() > want.len() { "invents" } else { "order-or-identity" };
          out.push((format!("C01/combined/{kind}/separate_fix={separate_fix}"), format!("rule {id} scanned with {} rules reports {} nodes, alone {}", rules.len(), g.len(), want.len())));
        }
      }
    }
    (total, out)
  });
  match r {
    Ok((n, out)) => {
      for (sig, what) in out {
        rep.violation(&sig, &what, replay.clone());
      }
      report_prune(rep, "combined scan", replay);
      n
    }
    Err(p) => {
      take_prune_events();
      rep.violation(&format!("C01/panic/{}", p.site()), &format!("combined scan: panic at {}: {}", p.location, p.message), replay.clone());
      0
    }
  }
}

fn gen_rule_doc(h: &rule::Harvest, rng: &mut Rng, depth: usize) -> (R, BTreeMap<String, R>) {
  let mut utils = BTreeMap::new();
  for i in 0..rng.below(3) {
    let cfg = GenCfg { picks: std::cell::Cell::new(1000 + 100 * i), disjoint_vars: true, max_depth: 2, utils: utils.keys().cloned().collect(), allow_field: false, allow_range: false };
    utils.insert(format!("U{i}"), rule::gen_rule(h, &cfg, 0, rng));
  }
  if rng.chance(1, 3) && !h.kinds.is_empty() {
    let other = utils.keys().next().cloned();
    utils.insert("UR".to_string(), rule::gen_recursive_util(h, "UR", other.as_ref(), rng));
  }
  let cfg = GenCfg { picks: std::cell::Cell::new(0), disjoint_vars: true, max_depth: depth, utils: utils.keys().cloned().collect(), allow_field: true, allow_range: true };
  let mut body = rule::gen_rule(h, &cfg, 0, rng);
  if utils.contains_key("UR") && rng.chance(2, 3) {
    let m = R::Matches("UR".to_string());
    body = match rng.below(3) {
      0 => R::Any(vec![body, m]),
      1 => m,
      _ => R::Has(Box::new(m), rule::Stop::End, None),
    };
  }
  // give the rule a kind so that RuleConfig accepts it and the accelerations are active
  let anchor = if rng.chance(1, 2) && !h.patterns.is_empty() {
    let p = rng.pick(&h.patterns).clone();
    R::Pattern(p.replace("$P", "$Q").replace("$$$W", "$$$Z"))
  } else {
    R::Kind(rng.pick(&h.kinds).clone())
  };
  let mut parts = vec![anchor];
  match body {
    R::Obj(v) => {
      for x in v {
        if !parts.iter().any(|p| p.key() == x.key()) {
          parts.push(x);
        }
      }
    }
    x if x.key() != parts[0].key() => parts.push(x),
    x => parts.push(R::All(vec![x])),
  }
  (R::Obj(parts), utils)
}

pub fn run_source(lang: SupportLang, fname: &str, src: &str, budget: (usize, usize, usize), rng: &mut Rng, rep: &mut Report) {
  let lname = corpus::lang_name(lang);
  // work limit (not a verdict): some generated rule / tree combinations are cubic
  let t0 = std::time::Instant::now();
  let limit_ms: u128 = std::env::var("VMON_SOURCE_BUDGET_MS").ok().and_then(|s| s.parse().ok()).unwrap_or(6000);
  macro_rules! over_budget {
    () => {
      if t0.elapsed().as_millis() > limit_ms {
        rep.count("sources_time_capped", 1);
        return;
      }
    };
  }
  if src.contains("ast-grep-ignore") {
    return;
  }
  let grep = lang.ast_grep(src);
  let root = grep.root();
  let (n_pat, n_rule, n_sets) = budget;
  // --- patterns at five strictness levels, contextual patterns with selector
  let mut sites = gen::cut_sites(&root, 300);
  rng.shuffle(&mut sites);
  let mut done = 0;
  for node in sites.iter().take(n_pat * 3) {
    if done >= n_pat {
      break;
    }
    let cut = match rng.below(6) {
      0 => gen::cut_singles(node, 0, rng),
      5 => gen::cut_trailing(node, rng),
      k => gen::cut_singles(node, k.min(3), rng),
    };
    let Some(cut) = cut else { continue };
    let Ok(pat) = Pattern::try_new(&cut.pattern, lang) else { continue };
    done += 1;
    over_budget!();
    for s in ALL_S {
      let p = pat.clone().with_strictness(s.to_impl());
      let replay = json!({"monitor":"c01","case":"pattern","lang":lname,"file":fname,"source":src,"pattern":cut.pattern,"strictness":s.name()});
      rep.evaluations += 1;
      let (n, kinds) = check_matcher(&p, &root, &format!("pattern `{}` ({})", clip(&cut.pattern, 80), s.name()), "pattern", &replay, rep);
      if n > 0 && kinds {
        rep.nontrivial(hash_parts(&[fname, &cut.pattern, s.name()]));
      }
    }
    // contextual: the same text as context, a descendant kind as selector
    if let Some(sel) = node.dfs().skip(1).find(|d| d.is_named()) {
      let selector = sel.kind().to_string();
      if let Ok(cp) = Pattern::contextual(&cut.pattern, &selector, lang) {
        let replay = json!({"monitor":"c01","case":"contextual","lang":lname,"file":fname,"source":src,"pattern":cut.pattern,"selector":selector});
        rep.evaluations += 1;
        let (n, _) = check_matcher(&cp, &root, &format!("contextual `{}` selector {selector}", clip(&cut.pattern, 60)), "contextual", &replay, rep);
        if n > 0 {
          rep.nontrivial(hash_parts(&[fname, &cut.pattern, "ctx", &selector]));
        }
      }
    }
  }
  // --- kind and regex matchers
  let pats = disjoint_patterns(&root, lang, 12, rng);
  let h = rule::harvest(&root, src, pats, field_names(lang), rng);
  for k in h.kinds.iter().take(6) {
    if let Ok(km) = KindMatcher::try_new(k, lang) {
      let replay = json!({"monitor":"c01","case":"kind","lang":lname,"file":fname,"source":src,"kind":k});
      rep.evaluations += 1;
      let (n, _) = check_matcher(&km, &root, &format!("kind {k}"), "kind", &replay, rep);
      if n > 0 {
        rep.nontrivial(hash_parts(&[fname, "kind", k]));
      }
    }
  }
  for id in h.idents.iter().take(3) {
    if let Ok(rm) = RegexMatcher::try_new(&format!("^{}$", rule::regex_escape(id))) {
      let replay = json!({"monitor":"c01","case":"regex","lang":lname,"file":fname,"source":src,"regex":id});
      rep.evaluations += 1;
      check_matcher(&rm, &root, &format!("regex ^{id}$"), "regex", &replay, rep);
    }
  }
  if h.kinds.is_empty() {
    return;
  }
  // relational rules over a node with hundreds of children (flat ERROR nodes) are quartic: work limit
  if root.dfs().map(|n| n.children().len()).max().unwrap_or(0) > 120 {
    rep.count("sources_rule_cases_skipped_wide_node", 1);
    return;
  }
  // --- rule documents, alone and scanned together
  let mut yamls: Vec<String> = vec![];
  for i in 0..n_rule {
    over_budget!();
    let (r, utils) = gen_rule_doc(&h, rng, 3);
    let fix = if rng.chance(1, 2) { Some("FIXED") } else { None };
    let y = rule_yaml(&format!("r{i}"), &lname, &r, &utils, fix);
    match guarded(|| load_rules(&[y.clone()])) {
      Ok(Ok(_)) => {
        let replay = json!({"monitor":"c01","case":"rule","lang":lname,"file":fname,"source":src,"rules":[y]});
        rep.evaluations += 1;
        let n = std::cell::Cell::new(0usize);
        with_shadow_attribution(rep, has_untracked_util_reference(&y), |r| {
          if let Ok(rules) = load_rules(&[y.clone()]) {
            n.set(check_matcher(&rules[0].matcher, &root, &format!("rule {}", clip(&y, 160)), "rule", &replay, r).0);
          }
        });
        let n = n.get();
        if n > 0 {
          rep.nontrivial(hash_parts(&[fname, &y]));
        }
        yamls.push(y);
      }
      Ok(Err(_)) => rep.count("rules_rejected", 1),
      Err(p) => rep.violation(&format!("C01/panic-load/{}", p.site()), &format!("panic at {}: {}", p.location, p.message), json!({"monitor":"c01","case":"rule","lang":lname,"file":fname,"source":src,"rules":[y]})),
    }
  }
  for _ in 0..n_sets {
    over_budget!();
    if yamls.is_empty() {
      break;
    }
    let k = 1 + rng.below(yamls.len().min(8));
    let mut idx: Vec<usize> = (0..yamls.len()).collect();
    rng.shuffle(&mut idx);
    let set: Vec<String> = idx.into_iter().take(k).map(|i| yamls[i].clone()).collect();
    if load_rules(&set).is_err() {
      continue;
    }
    let replay = json!({"monitor":"c01","case":"combined","lang":lname,"file":fname,"source":src,"rules":set});
    rep.evaluations += 1;
    let n = std::cell::Cell::new(0usize);
    with_shadow_attribution(rep, set.iter().any(|y| has_untracked_util_reference(&y)), |r| {
      if let Ok(rules) = load_rules(&set) {
        n.set(check_combined(&rules, lang, src, &replay, r));
      }
    });
    let n = n.get();
    rep.count("combined_sets", 1);
    if n > 0 && k > 1 {
      rep.nontrivial(hash_parts(&[fname, "set", &set.join("|")]));
    }
  }
}

fn replay(r: &Value, rep: &mut Report) {
  let lname = r["lang"].as_str().unwrap();
  let lang = crate::util::lang_of(lname);
  let src = r["source"].as_str().unwrap();
  let grep = lang.ast_grep(src);
  let root = grep.root();
  rep.evaluations += 1;
  match r["case"].as_str().unwrap_or("") {
    "pattern" => {
      let Ok(pat) = Pattern::try_new(r["pattern"].as_str().unwrap(), lang) else { return };
      let s = r["strictness"].as_str().unwrap_or("smart");
      let p = pat.with_strictness(s.parse().unwrap());
      check_matcher(&p, &root, "pattern", "pattern", r, rep);
    }
    "contextual" => {
      let Ok(p) = Pattern::contextual(r["pattern"].as_str().unwrap(), r["selector"].as_str().unwrap(), lang) else { return };
      check_matcher(&p, &root, "contextual", "contextual", r, rep);
    }
    "kind" => {
      if let Ok(k) = KindMatcher::try_new(r["kind"].as_str().unwrap(), lang) {
        check_matcher(&k, &root, "kind", "kind", r, rep);
      }
    }
    "rule" | "combined" => {
      let yamls: Vec<String> = r["rules"].as_array().unwrap().iter().map(|x| x.as_str().unwrap().to_string()).collect();
      with_shadow_attribution(rep, yamls.iter().any(|y| has_untracked_util_reference(&y)), |out| {
        let Ok(rules) = load_rules(&yamls) else { return };
        if r["case"] == "rule" {
          check_matcher(&rules[0].matcher, &root, "rule", "rule", r, out);
        } else {
          check_combined(&rules, lang, src, r, out);
        }
      });
    }
    _ => {}
  }
}

pub fn run(ctx: &Ctx, rep: &mut Report) {
  ast_grep_core::verif::mem_sink(true);
  if let Some(r) = &ctx.replay {
    replay(r, rep);
    return;
  }
  let mut rng = ctx.rng("c01");
  let files: Vec<SrcFile> = corpus::shard(&corpus::load_all(), ctx.shard, ctx.nshards);
  let budget = if ctx.thorough { (60, 40, 30) } else { (6, 6, 4) };
  for f in &files {
    let text = excerpt(&f.text, if ctx.thorough { 8000 } else { 4000 });
    run_source(f.lang, &f.name, &text, budget, &mut rng, rep);
    let m = MUTATIONS[rng.below(MUTATIONS.len())];
    let t = corpus::mutate(&text, m, &mut rng);
    run_source(f.lang, &format!("{}#{:?}", f.name, m), &t, (budget.0 / 2 + 1, budget.1 / 2 + 1, budget.2 / 2 + 1), &mut rng, rep);
    rep.count(&format!("lang.{}", corpus::lang_name(f.lang)), 1);
  }
  for (k, v) in ast_grep_core::verif::counters() {
    rep.count(&format!("prune.{k}"), v);
  }
  rep.sample(json!({"voices": ["find_all vs per-node", "non-reentrant visitor vs outermost", "CombinedScan vs rule alone", "H1 prune assertions"]}));
}

/// `vmon c01-expect --replay <queries.json>`: what the LIBRARY reports for CLI-style queries.
/// input: {"lang":..., "files": {path: text}, "queries":[{"pattern":..,"strictness":..,"selector":..} | {"rule": yaml}]}
/// output (stdout notes): per query {path: [[start,end],...]}
pub fn expect(ctx: &Ctx, rep: &mut Report) {
  let Some(r) = &ctx.replay else { return };
  let lang = crate::util::lang_of(r["lang"].as_str().unwrap());
  let files = r["files"].as_object().unwrap();
  let mut out = vec![];
  // queries may be supplied, or generated here from the files (patterns cut from them at all
  // strictness levels, contextual patterns, rule documents)
  let queries: Vec<Value> = match r.get("queries").and_then(|x| x.as_array()) {
    Some(q) => q.clone(),
    None => {
      let mut rng = ctx.rng("c01-expect");
      let per_file = r["per_file"].as_u64().unwrap_or(3) as usize;
      let mut qs = vec![];
      for (fi, (_path, text)) in files.iter().enumerate() {
        let src = text.as_str().unwrap();
        let grep = lang.ast_grep(src);
        let root = grep.root();
        let mut sites = gen::cut_sites(&root, 200);
        rng.shuffle(&mut sites);
        let mut made = 0;
        for node in sites.iter() {
          if made >= per_file {
            break;
          }
          let cut = match rng.below(5) {
            0 => gen::cut_singles(node, 0, &mut rng),
            4 => gen::cut_trailing(node, &mut rng),
            k => gen::cut_singles(node, k.min(2), &mut rng),
          };
          let Some(cut) = cut else { continue };
          // keep command lines simple: single-line patterns that do not start with a dash
          if cut.pattern.contains('\n') || cut.pattern.starts_with('-') || cut.pattern.len() > 100 || Pattern::try_new(&cut.pattern, lang).is_err() {
            continue;
          }
          made += 1;
          let s = ALL_S[(fi + made) % 5].name();
          qs.push(json!({"pattern": cut.pattern, "strictness": s}));
          // the same pattern with one lower-case word upper-cased: in grammars with case-insensitive
          // keywords (PHP `ECHO`) the pattern still matches although its literal text is not in the file
          {
            let re = regex::Regex::new(r"(^|[^$A-Za-z0-9_])([a-z]{2,})\b").unwrap();
            let words: Vec<(usize, usize)> = re.captures_iter(&cut.pattern).map(|c| (c.get(2).unwrap().start(), c.get(2).unwrap().end())).collect();
            for (a, b) in words.into_iter().take(3) {
              let flipped = format!("{}{}{}", &cut.pattern[..a], cut.pattern[a..b].to_uppercase(), &cut.pattern[b..]);
              if Pattern::try_new(&flipped, lang).is_ok() {
                qs.push(json!({"pattern": flipped, "strictness": s}));
              }
            }
          }
          if made == 1 {
            if let Some(sel) = node.dfs().skip(1).find(|d| d.is_named()) {
              let selector = sel.kind().to_string();
              if Pattern::contextual(&cut.pattern, &selector, lang).is_ok() {
                // with and without an explicit strictness (the selector path must honour it too)
                qs.push(json!({"pattern": cut.pattern, "selector": selector}));
                qs.push(json!({"pattern": cut.pattern, "selector": selector, "strictness": ALL_S[(fi + made + 2) % 5].name()}));
              }
            }
          }
        }
        if fi < 3 {
          let pats = disjoint_patterns(&root, lang, 8, &mut rng);
          let h = rule::harvest(&root, src, pats, vec![], &mut rng);
          if !h.kinds.is_empty() {
            let (rl, utils) = gen_rule_doc(&h, &mut rng, 2);
            let y = rule_yaml(&format!("q{fi}"), &corpus::lang_name(lang), &rl, &utils, None);
            if load_rules(&[y.clone()]).is_ok() {
              qs.push(json!({"rule": y}));
            }
          }
        }
      }
      qs
    }
  };
  for q in &queries {
    let mut per_file = serde_json::Map::new();
    for (path, text) in files {
      let src = text.as_str().unwrap();
      let ranges: Option<Vec<Value>> = guarded(|| {
        let grep = lang.ast_grep(src);
        let root = grep.root();
        if let Some(y) = q.get("rule").and_then(|x| x.as_str()) {
          let rules = load_rules(&[y.to_string()]).ok()?;
          Some(root.dfs().filter_map(|n| rules[0].matcher.match_node(n.clone()).map(|_| json!([n.range().start, n.range().end]))).collect())
        } else {
          let p = q["pattern"].as_str()?;
          let pat = match q.get("selector").and_then(|x| x.as_str()) {
            Some(sel) => Pattern::contextual(p, sel, lang).ok()?,
            None => Pattern::try_new(p, lang).ok()?,
          };
          let pat = match q.get("strictness").and_then(|x| x.as_str()) {
            Some(s) => pat.with_strictness(s.parse().ok()?),
            None => pat,
          };
          Some(root.dfs().filter_map(|n| pat.match_node(n.clone()).map(|_| json!([n.range().start, n.range().end]))).collect())
        }
      })
      .ok()
      .flatten();
      per_file.insert(path.clone(), match ranges {
        Some(v) => Value::Array(v),
        None => Value::Null,
      });
    }
    out.push(Value::Object(per_file));
  }
  rep.samples.push(json!({"queries": queries, "expected": out}));
  rep.evaluations += 1;
}
