//! C05 — rule objects mean what the rule reference says.
use crate::corpus::{self, SrcFile, MUTATIONS};
use crate::gen;
use crate::refsem::rule::{self, GenCfg, Stop, R};
use crate::refsem::rule_bool::{holds, Ctx as RCtx, Emu};
use crate::rng::{hash_parts, Rng};
use crate::util::{clip, guarded, is_missing, N};
use crate::{Ctx, Report};
use ast_grep_config::{DeserializeEnv, RuleCore, SerializableRuleCore};
use ast_grep_core::matcher::MatcherExt;
use ast_grep_core::Language;
use ast_grep_language::SupportLang;
use serde_json::{json, Value};
use std::collections::BTreeMap;

pub fn excerpt(text: &str, max: usize) -> String {
  if text.len() <= max {
    return text.to_string();
  }
  let mut cut = max;
  while !text.is_char_boundary(cut) {
    cut -= 1;
  }
  let cut = text[..cut].rfind('\n').map(|i| i + 1).unwrap_or(cut);
  text[..cut].to_string()
}

/// an excerpt whose tree has no zero-width recovery node (a cut in the middle of a block leaves a
/// MISSING `}`; the parser library disagrees with itself about the siblings of such nodes, see C19)
pub fn clean_excerpt(lang: SupportLang, text: &str, max: usize) -> Option<String> {
  let mut cur = excerpt(text, max);
  for _ in 0..40 {
    if cur.trim().is_empty() {
      return None;
    }
    let ok = {
      let g = lang.ast_grep(cur.as_str());
      zero_width_free(&g.root())
    };
    if ok {
      return Some(cur);
    }
    let trimmed = cur.trim_end_matches('\n');
    let cut = trimmed.rfind('\n').map(|i| i + 1)?;
    cur.truncate(cut);
  }
  None
}

pub fn field_names(lang: SupportLang) -> Vec<String> {
  let l = lang.get_ts_language();
  (1..=l.field_count()).filter_map(|i| l.field_name_for_id(i).map(|s| s.to_string())).collect()
}

/// rename the cutter's variables so that sub-patterns of one rule are variable-disjoint
pub fn disjoint_patterns(root: &N, lang: SupportLang, want: usize, rng: &mut Rng) -> Vec<String> {
  let mut sites = gen::cut_sites(root, 160);
  rng.shuffle(&mut sites);
  let mut out = vec![];
  for (i, s) in sites.iter().enumerate() {
    if out.len() >= want {
      break;
    }
    let cut = match rng.below(4) {
      0 => gen::cut_singles(s, 0, rng),
      3 => gen::cut_trailing(s, rng),
      k => gen::cut_singles(s, k, rng),
    };
    let Some(cut) = cut else { continue };
    if cut.pattern.contains('\n') || cut.pattern.len() > 120 {
      continue;
    }
    let p = cut.pattern.replace("$$$V", &format!("$$$W{i}")).replace("$V", &format!("$P{i}V"));
    if ast_grep_core::Pattern::try_new(&p, lang).is_ok() {
      out.push(p);
    }
  }
  out
}

pub fn core_yaml(rule: &R, utils: &BTreeMap<String, R>) -> String {
  let mut m = serde_json::Map::new();
  m.insert("rule".into(), rule.to_value());
  if !utils.is_empty() {
    let u: serde_json::Map<String, Value> = utils.iter().map(|(k, v)| (k.clone(), v.to_value())).collect();
    m.insert("utils".into(), Value::Object(u));
  }
  serde_json::to_string(&Value::Object(m)).unwrap()
}

/// global utilities carrying the ids of the document's local utilities (a local utility shadows a global one of
/// the same id completely).  Only for documents whose utilities refer to each other in ways the registration
/// order follows: otherwise the known C01 defect (kind caches built from the global rule) would show up here.
fn shadowed_globals(yaml: &str, lang: SupportLang) -> Option<ast_grep_config::GlobalRules<SupportLang>> {
  fn untracked(v: &Value, below_relation: bool, found: &mut bool) {
    match v {
      Value::Object(m) => {
        for (k, x) in m {
          if k == "matches" && below_relation {
            *found = true;
          }
          untracked(x, below_relation || matches!(k.as_str(), "has" | "inside" | "follows" | "precedes" | "stopBy"), found);
        }
      }
      Value::Array(a) => a.iter().for_each(|x| untracked(x, below_relation, found)),
      _ => {}
    }
  }
  if crate::rng::hash_str(yaml) % 2 == 0 {
    return None;
  }
  let doc: Value = serde_json::from_str(yaml).ok()?;
  let utils = doc.get("utils")?.as_object()?;
  let mut bad = yaml.contains("\"UR\"");
  untracked(doc.get("utils")?, false, &mut bad);
  if bad || utils.is_empty() {
    return None;
  }
  // the decoy matches every named node of some frequent kinds: anything the local utility rejects would be let in
  let lname = corpus::lang_name(lang);
  let mut sers = vec![];
  for n in utils.keys() {
    let g = serde_json::to_string(&json!({"id": n, "language": lname, "rule": {"regex": "."}})).ok()?;
    sers.push(ast_grep_config::from_str(&g).ok()?);
  }
  DeserializeEnv::parse_global_utils(sers).ok()
}

pub fn build_core(yaml: &str, lang: SupportLang) -> Result<RuleCore<SupportLang>, String> {
  let ser: SerializableRuleCore = ast_grep_config::from_str(yaml).map_err(|e| format!("yaml: {e}"))?;
  let env = match shadowed_globals(yaml, lang) {
    Some(g) => DeserializeEnv::new(lang).with_globals(&g),
    None => DeserializeEnv::new(lang),
  };
  ser.get_matcher(env).map_err(|e| format!("{e}: {}", std::error::Error::source(&e).map(|s| s.to_string()).unwrap_or_default()))
}

/// one-step simplifications of a rule tree (for shrinking a disagreement)
fn simplify(r: &R) -> Vec<R> {
  let mut out = vec![];
  match r {
    R::Obj(v) | R::All(v) | R::Any(v) => {
      let mk = |v: Vec<R>| match r {
        R::Obj(_) => R::Obj(v),
        R::All(_) => R::All(v),
        _ => R::Any(v),
      };
      if v.len() == 1 {
        out.push(v[0].clone());
      }
      if v.len() > 1 {
        for i in 0..v.len() {
          let mut w = v.clone();
          w.remove(i);
          out.push(if w.len() == 1 && matches!(r, R::Obj(_)) { w.pop().unwrap() } else { mk(w) });
        }
      }
      for i in 0..v.len() {
        for s in simplify(&v[i]) {
          if matches!(r, R::Obj(_)) && (matches!(s, R::Obj(_)) || v.iter().enumerate().any(|(j, o)| j != i && o.key() == s.key())) {
            continue;
          }
          let mut w = v.clone();
          w[i] = s;
          out.push(mk(w));
        }
      }
    }
    R::Not(x) => {
      for s in simplify(x) {
        out.push(R::Not(Box::new(s)));
      }
    }
    R::Nth { a, b, reverse, of: Some(o), simple } => {
      out.push(R::Nth { a: *a, b: *b, reverse: *reverse, of: None, simple: *simple });
      for s in simplify(o) {
        out.push(R::Nth { a: *a, b: *b, reverse: *reverse, of: Some(Box::new(s)), simple: *simple });
      }
    }
    R::Inside(x, st, f) | R::Has(x, st, f) => {
      let mk = |x: R, st: Stop| if matches!(r, R::Inside(..)) { R::Inside(Box::new(x), st, f.clone()) } else { R::Has(Box::new(x), st, f.clone()) };
      if let Stop::Rule(sr) = st {
        out.push(mk((**x).clone(), Stop::End));
        for s in simplify(sr) {
          out.push(mk((**x).clone(), Stop::Rule(Box::new(s))));
        }
      }
      for s in simplify(x) {
        out.push(mk(s, st.clone()));
      }
    }
    R::Precedes(x, st) | R::Follows(x, st) => {
      let mk = |x: R, st: Stop| if matches!(r, R::Precedes(..)) { R::Precedes(Box::new(x), st) } else { R::Follows(Box::new(x), st) };
      if let Stop::Rule(sr) = st {
        out.push(mk((**x).clone(), Stop::End));
        for s in simplify(sr) {
          out.push(mk((**x).clone(), Stop::Rule(Box::new(s))));
        }
      }
      for s in simplify(x) {
        out.push(mk(s, st.clone()));
      }
    }
    _ => {}
  }
  out
}

const EMUS: [(Emu, &str); 4] = [
  (Emu { cursor_prev_all: true, cursor_next_all: false, of_rule_returned_node: false }, "C05/follows/cursor-prev_all-defect"),
  (Emu { cursor_prev_all: false, cursor_next_all: true, of_rule_returned_node: false }, "C05/precedes/cursor-next_all-defect"),
  (Emu { cursor_prev_all: false, cursor_next_all: false, of_rule_returned_node: true }, "C05/nthChild/ofRule-returns-other-node"),
  (Emu { cursor_prev_all: true, cursor_next_all: false, of_rule_returned_node: true }, "C05/nthChild/ofRule-returns-other-node+cursor-prev_all-defect"),
];

pub struct Case<'a> {
  pub lang: SupportLang,
  pub lname: &'a str,
  pub fname: &'a str,
  pub src: &'a str,
}

fn disagree(case: &Case, rule: &R, utils: &BTreeMap<String, R>, n: &N, emu: Emu) -> Option<(bool, bool)> {
  // returns Some((impl, reference)) when they differ
  let yaml = core_yaml(rule, utils);
  let core = build_core(&yaml, case.lang).ok()?;
  let mut rc = RCtx::new(case.src, case.lang);
  rc.emu = emu;
  rc.utils = utils.iter().map(|(k, v)| (k.clone(), v.clone())).collect();
  rc.prepare(rule).ok()?;
  for u in utils.values() {
    rc.prepare(u).ok()?;
  }
  let i = guarded(|| core.match_node(n.clone()).is_some()).ok()?;
  let r = holds(rule, n, &rc);
  (i != r).then_some((i, r))
}

fn prune_violations() -> u64 {
  ast_grep_core::verif::counters().iter().filter(|(k, _)| k.ends_with(".violation")).map(|(_, v)| *v).sum()
}

/// which prune site reported a violation most recently (for the signature)
fn prune_sites() -> Vec<String> {
  ast_grep_core::verif::counters().iter().filter(|(k, v)| k.ends_with(".violation") && **v > 0).map(|(k, _)| k.trim_end_matches(".violation").to_string()).collect()
}

/// inside every nthChild.ofRule, make the generator's capturing variables non-capturing
fn decapture_of_rules(r: &R, inside_of: bool) -> R {
  // inside_of = true from the start decaptures every pattern of the rule
  let fix = |p: &str| -> String {
    let whole = regex::Regex::new(r"^\$\$\$[A-Z][A-Z0-9_]*$").unwrap();
    if whole.is_match(p.trim()) {
      // a bare named ellipsis matches any single node: same as a non-capturing any-node hole
      return "$$_".to_string();
    }
    let re1 = regex::Regex::new(r"\$\$\$[A-Z][A-Z0-9_]*").unwrap();
    let re2 = regex::Regex::new(r"\$\$[A-Z][A-Z0-9_]*").unwrap();
    let re3 = regex::Regex::new(r"\$[A-Z][A-Z0-9_]*").unwrap();
    let p = re1.replace_all(p, "\u{1}").to_string();
    let p = re2.replace_all(&p, "\u{2}").to_string();
    let p = re3.replace_all(&p, "\u{3}").to_string();
    p.replace('\u{1}', "$$$").replace('\u{2}', "$$_").replace('\u{3}', "$_")
  };
  let rec = |x: &R| decapture_of_rules(x, inside_of);
  let stop = |s: &Stop| match s {
    Stop::Rule(x) => Stop::Rule(Box::new(rec(x))),
    o => o.clone(),
  };
  match r {
    R::Pattern(p) if inside_of => R::Pattern(fix(p)),
    R::Obj(v) => R::Obj(v.iter().map(rec).collect()),
    R::All(v) => R::All(v.iter().map(rec).collect()),
    R::Any(v) => R::Any(v.iter().map(rec).collect()),
    R::Not(x) => R::Not(Box::new(rec(x))),
    R::Nth { a, b, reverse, of, simple } => R::Nth { a: *a, b: *b, reverse: *reverse, of: of.as_ref().map(|o| Box::new(decapture_of_rules(o, true))), simple: *simple },
    R::Inside(x, s, f) => R::Inside(Box::new(rec(x)), stop(s), f.clone()),
    R::Has(x, s, f) => R::Has(Box::new(rec(x)), stop(s), f.clone()),
    R::Precedes(x, s) => R::Precedes(Box::new(rec(x)), stop(s)),
    R::Follows(x, s) => R::Follows(Box::new(rec(x)), stop(s)),
    o => o.clone(),
  }
}

fn utils_reached_from_of_rules(rule: &R, utils: &BTreeMap<String, R>) -> std::collections::BTreeSet<String> {
  fn collect(r: &R, inside: bool, out: &mut Vec<String>) {
    match r {
      R::Matches(u) if inside => out.push(u.clone()),
      R::Obj(v) | R::All(v) | R::Any(v) => v.iter().for_each(|x| collect(x, inside, out)),
      R::Not(x) => collect(x, inside, out),
      R::Nth { of: Some(o), .. } => collect(o, true, out),
      R::Inside(x, s, _) | R::Has(x, s, _) | R::Precedes(x, s) | R::Follows(x, s) => {
        collect(x, inside, out);
        if let Stop::Rule(st) = s {
          collect(st, inside, out);
        }
      }
      _ => {}
    }
  }
  let mut seeds = vec![];
  collect(rule, false, &mut seeds);
  for u in utils.values() {
    collect(u, false, &mut seeds);
  }
  let mut reach = std::collections::BTreeSet::new();
  while let Some(u) = seeds.pop() {
    if reach.insert(u.clone()) {
      if let Some(body) = utils.get(&u) {
        collect(body, true, &mut seeds);
      }
    }
  }
  reach
}

/// C05 quantifies over variable-disjoint sub-patterns.  A utility whose patterns capture is a shared
/// sub-pattern as soon as it is referenced twice (every use binds the same names in one environment),
/// so the utilities used more than once -- counting uses through other utilities -- lose their captures.
fn keep_variable_disjoint(rule: &R, utils: &mut BTreeMap<String, R>) -> usize {
  fn walk(r: &R, utils: &BTreeMap<String, R>, uses: &mut BTreeMap<String, usize>, depth: usize) {
    match r {
      R::Matches(u) => {
        *uses.entry(u.clone()).or_insert(0) += 1;
        if depth < 12 {
          if let Some(body) = utils.get(u) {
            walk(body, utils, uses, depth + 1);
          }
        }
      }
      R::Obj(v) | R::All(v) | R::Any(v) => v.iter().for_each(|x| walk(x, utils, uses, depth)),
      R::Not(x) => walk(x, utils, uses, depth),
      R::Nth { of: Some(o), .. } => walk(o, utils, uses, depth),
      R::Inside(x, s, _) | R::Has(x, s, _) | R::Precedes(x, s) | R::Follows(x, s) => {
        walk(x, utils, uses, depth);
        if let Stop::Rule(st) = s {
          walk(st, utils, uses, depth);
        }
      }
      _ => {}
    }
  }
  let mut uses = BTreeMap::new();
  walk(rule, utils, &mut uses, 0);
  let mut changed = 0;
  for (u, n) in uses {
    if n > 1 {
      if let Some(body) = utils.get(&u).cloned() {
        let de = decapture_of_rules(&body, true);
        if format!("{:?}", de) != format!("{:?}", body) {
          changed += 1;
        }
        utils.insert(u, de);
      }
    }
  }
  changed
}

fn ops_sig(rule: &R, utils: &BTreeMap<String, R>) -> String {
  let mut ops: Vec<&str> = rule.operators();
  for u in utils.values() {
    ops.extend(u.operators());
  }
  ops.sort();
  ops.dedup();
  ops.join("+")
}

/// attribute a disagreement: which single emulation switch (or recorded pair) explains it?
fn attribute(case: &Case, rule: &R, utils: &BTreeMap<String, R>, n: &N) -> Option<&'static str> {
  let singles: [(Emu, &'static str); 3] = [
    (Emu { cursor_prev_all: true, ..Default::default() }, "C05/follows/cursor-prev_all-defect"),
    (Emu { cursor_next_all: true, ..Default::default() }, "C05/precedes/cursor-next_all-defect"),
    (Emu { of_rule_returned_node: true, ..Default::default() }, "C05/nthChild/ofRule-returns-other-node"),
  ];
  for (e, sig) in singles {
    if disagree(case, rule, utils, n, e).is_none() {
      return Some(sig);
    }
  }
  let pair = Emu { cursor_prev_all: true, of_rule_returned_node: true, ..Default::default() };
  if disagree(case, rule, utils, n, pair).is_none() {
    return Some("C05/nthChild/ofRule-returns-other-node+cursor-prev_all-defect");
  }
  // nthChild.ofRule evaluates every sibling against ONE shared environment: a capturing
  // variable bound on the first sibling constrains all later ones
  let de = decapture_of_rules(rule, false);
  let de_utils: BTreeMap<String, R> = utils.iter().map(|(k, v)| (k.clone(), decapture_of_rules(v, false))).collect();
  if format!("{:?}", de) != format!("{:?}", rule) || format!("{:?}", de_utils) != format!("{:?}", utils) {
    if disagree(case, &de, &de_utils, n, Emu::default()).is_none() {
      return Some("C05/nthChild/ofRule-shared-env");
    }
  }
  None
}

/// rough upper bound of atom evaluations needed to decide `r` on ONE node of a tree with `n` nodes whose
/// widest node has `m` children (neither the implementation nor the reference memoises)
fn est_cost(r: &R, utils: &BTreeMap<String, R>, n: f64, m: f64, depth: usize) -> f64 {
  let rel = |x: &R, s: &Stop, span: f64| -> f64 {
    let inner = est_cost(x, utils, n, m, depth);
    match s {
      Stop::Neighbor => inner,
      Stop::End => span * inner,
      Stop::Rule(st) => span * (inner + est_cost(st, utils, n, m, depth)),
    }
  };
  match r {
    R::Obj(v) | R::All(v) | R::Any(v) => v.iter().map(|x| est_cost(x, utils, n, m, depth)).sum::<f64>() + 1.0,
    R::Not(x) => est_cost(x, utils, n, m, depth),
    R::Nth { of: Some(o), .. } => m * est_cost(o, utils, n, m, depth),
    R::Inside(x, s, _) => rel(x, s, 40.0),
    R::Has(x, s, _) => match s {
      Stop::Neighbor => m * est_cost(x, utils, n, m, depth),
      _ => rel(x, s, n),
    },
    R::Precedes(x, s) | R::Follows(x, s) => rel(x, s, m),
    R::Matches(u) if depth < 6 => utils.get(u).map(|b| est_cost(b, utils, n, m, depth + 1)).unwrap_or(1.0),
    R::Matches(_) => n,
    _ => 1.0,
  }
}

pub fn check_rule(case: &Case, root: &N, nodes: &[N], rule: &R, utils: &BTreeMap<String, R>, rep: &mut Report) -> Option<(usize, usize)> {
  {
    // work limit (not a verdict): a single evaluation cannot be interrupted, so rule / tree combinations whose
    // estimated cost is astronomically large (nested unbounded relations over wide nodes) are not started
    let n = root.dfs().count() as f64;
    let m = root.dfs().map(|x| x.children().len()).max().unwrap_or(1) as f64;
    let budget: f64 = std::env::var("VMON_RULE_COST").ok().and_then(|s| s.parse().ok()).unwrap_or(1e10);
    if est_cost(rule, utils, n, m, 0) * (nodes.len() as f64) > budget {
      rep.count("rules_skipped_estimated_cost", 1);
      return None;
    }
  }
  let yaml = core_yaml(rule, utils);
  let core = match guarded(|| build_core(&yaml, case.lang)) {
    Ok(Ok(c)) => c,
    Ok(Err(_)) => {
      rep.count("rules_rejected", 1);
      return None;
    }
    Err(p) => {
      rep.violation(&format!("C05/panic-load/{}", p.site()), &format!("loading panicked at {}: {}", p.location, p.message), json!({"monitor":"c05","lang":case.lname,"file":case.fname,"source":case.src,"rule":rule.to_value(),"utils":utils.iter().map(|(k,v)|(k.clone(),v.to_value())).collect::<serde_json::Map<_,_>>()}));
      return None;
    }
  };
  let mut rc = RCtx::new(case.src, case.lang);
  rc.utils = utils.iter().map(|(k, v)| (k.clone(), v.clone())).collect();
  if rc.prepare(rule).is_err() || utils.values().any(|u| rc.prepare(u).is_err()) {
    rep.count("rules_unprepared", 1);
    return None;
  }
  let _ = root;
  let (mut t, mut f) = (0usize, 0usize);
  let mut analysed = 0;
  let mut decap: Option<Option<(RuleCore<SupportLang>, RCtx, R)>> = None;
  let mut decap_all: Option<Option<(RuleCore<SupportLang>, RCtx, R)>> = None;
  let t_start = std::time::Instant::now();
  let budget_ms: u128 = std::env::var("VMON_RULE_BUDGET_MS").ok().and_then(|s| s.parse().ok()).unwrap_or(400);
  for n in nodes {
    if t_start.elapsed().as_millis() > budget_ms {
      // work limit, not a verdict: pathological rule/tree combinations are cubic
      rep.count("rules_time_capped", 1);
      break;
    }
    rep.evaluations += 1;
    let t_ref = std::time::Instant::now();
    let want = holds(rule, n, &rc);
    rep.count("us_reference", t_ref.elapsed().as_micros() as u64);
    if rc.ambiguous.get() {
      rc.ambiguous.set(false);
      rep.count("no_verdict_ambiguous_field", 1);
      continue;
    }
    let pv0 = prune_violations();
    let t_impl = std::time::Instant::now();
    let got = guarded(|| core.match_node(n.clone()).is_some());
    rep.count("us_impl", t_impl.elapsed().as_micros() as u64);
    let pruned_wrongly = prune_violations() > pv0;
    let mk_replay = |r: &R| json!({"monitor":"c05","lang":case.lname,"file":case.fname,"source":case.src,"rule":r.to_value(),
      "rule_ast": format!("{:?}", r), "utils":utils.iter().map(|(k,v)|(k.clone(),v.to_value())).collect::<serde_json::Map<_,_>>(),
      "utils_ast": utils.iter().map(|(k,v)|(k.clone(),format!("{:?}",v))).collect::<BTreeMap<_,_>>(),
      "node":[n.range().start,n.range().end],"kind":n.kind()});
    match got {
      Ok(g) => {
        if g {
          t += 1
        } else {
          f += 1
        }
        if g != want && pruned_wrongly {
          // the H1 hook saw an acceleration skip a node that would have matched: C01's defect
          rep.violation("C05/explained-by-prune-violation", &format!("rule {} on `{}`: a kind prefilter dropped a match at {} (see C01)", clip(&rule.to_value().to_string(), 200), clip(&n.text(), 60), prune_sites().join("+")), mk_replay(rule));
        } else if g != want {
          // 1. cheap attribution with the per-rule emulation variants
          let mut attributed: Option<&'static str> = None;
          for (e, sig) in EMUS {
            rc.emu = e;
            let w = holds(rule, n, &rc);
            rc.emu = Emu::default();
            rc.ambiguous.set(false);
            if w == g {
              attributed = Some(sig);
              break;
            }
          }
          if attributed.is_none() {
            if decap.is_none() {
              let de = decapture_of_rules(rule, false);
              // utilities reachable from inside an ofRule are evaluated under the same shared env
              let reach = utils_reached_from_of_rules(rule, utils);
              let de_utils: BTreeMap<String, R> = utils.iter().map(|(k, v)| (k.clone(), decapture_of_rules(v, reach.contains(k)))).collect();
              let changed = format!("{:?}{:?}", de, de_utils) != format!("{:?}{:?}", rule, utils);
              let built = if changed {
                build_core(&core_yaml(&de, &de_utils), case.lang).ok().and_then(|c| {
                  let mut r2 = RCtx::new(case.src, case.lang);
                  r2.utils = de_utils.iter().map(|(k, v)| (k.clone(), v.clone())).collect();
                  r2.prepare(&de).ok()?;
                  for u in de_utils.values() {
                    r2.prepare(u).ok()?;
                  }
                  Some((c, r2, de))
                })
              } else {
                None
              };
              decap = Some(built);
            }
            if let Some(Some((c2, r2, de))) = &decap {
              let gi = guarded(|| c2.match_node(n.clone()).is_some()).unwrap_or(!g);
              if gi == holds(de, n, r2) {
                attributed = Some("C05/nthChild/ofRule-shared-env");
              }
            }
            if attributed.is_none() {
              if decap_all.is_none() {
                let de = decapture_of_rules(rule, true);
                let de_utils: BTreeMap<String, R> = utils.iter().map(|(k, v)| (k.clone(), decapture_of_rules(v, true))).collect();
                let changed = format!("{:?}{:?}", de, de_utils) != format!("{:?}{:?}", rule, utils);
                let built = if changed {
                  build_core(&core_yaml(&de, &de_utils), case.lang).ok().and_then(|c| {
                    let mut r2 = RCtx::new(case.src, case.lang);
                    r2.utils = de_utils.iter().map(|(k, v)| (k.clone(), v.clone())).collect();
                    r2.prepare(&de).ok()?;
                    for u in de_utils.values() {
                      r2.prepare(u).ok()?;
                    }
                    Some((c, r2, de))
                  })
                } else {
                  None
                };
                decap_all = Some(built);
              }
              if let Some(Some((c2, r2, de))) = &decap_all {
                let gi = guarded(|| c2.match_node(n.clone()).is_some()).unwrap_or(!g);
                if gi == holds(de, n, r2) {
                  // variable-disjoint rule, yet the outcome depends on captures: bindings made while
                  // trying one candidate survive into the next (C04's `not` leak)
                  attributed = Some("C05/bindings-leak-across-candidates");
                }
              }
            }
          }
          if let Some(sig) = attributed {
            rep.violation(sig, &format!("rule {} on `{}` ({}): implementation={} reference={} (explained by the emulation of a known defect)", clip(&rule.to_value().to_string(), 300), clip(&n.text(), 60), n.kind(), g, want), mk_replay(rule));
          } else if analysed >= 2 {
            rep.violation("C05/disagree/unshrunk", &format!("rule {} on `{}` ({}): implementation={} reference={}", clip(&rule.to_value().to_string(), 300), clip(&n.text(), 60), n.kind(), g, want), mk_replay(rule));
          } else {
            analysed += 1;
            // 2. fresh disagreement: shrink the rule while it persists at this node
            let mut cur = rule.clone();
            let mut budget = 60;
            'outer: while budget > 0 {
              for s in simplify(&cur) {
                budget -= 1;
                if budget == 0 {
                  break 'outer;
                }
                if disagree(case, &s, utils, n, Emu::default()).is_some() {
                  cur = s;
                  continue 'outer;
                }
              }
              break;
            }
            let sig = match attribute(case, &cur, utils, n) {
              Some(sig) => sig.to_string(),
              None => format!("C05/disagree/impl={}/ops={}", g, ops_sig(&cur, &BTreeMap::new())),
            };
            rep.violation(&sig, &format!("rule {} on `{}` ({}): implementation={} reference={}", clip(&cur.to_value().to_string(), 300), clip(&n.text(), 60), n.kind(), g, want), mk_replay(&cur));
          }
        }
      }
      Err(p) => rep.violation(&format!("C05/panic/{}", p.site()), &format!("match_node panicked at {}: {}", p.location, p.message), mk_replay(rule)),
    }
  }
  Some((t, f))
}

pub fn zero_width_free(root: &N) -> bool {
  root.dfs().skip(1).all(|n| !n.range().is_empty() && !is_missing(&n))
}

fn gen_utils(h: &rule::Harvest, rng: &mut Rng) -> BTreeMap<String, R> {
  let mut utils = BTreeMap::new();
  let n = rng.below(3);
  for i in 0..n {
    let cfg = GenCfg { picks: std::cell::Cell::new(1000 + 100 * i), disjoint_vars: true, max_depth: 2, utils: utils.keys().cloned().collect(), allow_field: false, allow_range: false };
    let r = rule::gen_rule(h, &cfg, 0, rng);
    utils.insert(format!("U{i}"), r);
  }
  if rng.chance(1, 4) && !h.kinds.is_empty() {
    let other = utils.keys().next().cloned();
    utils.insert("UR".to_string(), rule::gen_recursive_util(h, "UR", other.as_ref(), rng));
  }
  utils
}

pub fn run_source(lang: SupportLang, fname: &str, src: &str, n_rules: usize, max_depth: usize, rng: &mut Rng, rep: &mut Report) {
  let lname = corpus::lang_name(lang);
  let grep = lang.ast_grep(src);
  let root = grep.root();
  if !zero_width_free(&root) {
    rep.count("sources_skipped_zero_width", 1);
    return;
  }
  rep.count("sources", 1);
  let mut nodes: Vec<N> = root.dfs().collect();
  if nodes.len() > 900 {
    // keep the root and a random sample
    let r0 = nodes[0].clone();
    rng.shuffle(&mut nodes);
    nodes.truncate(900);
    nodes.push(r0);
  }
  let pats = disjoint_patterns(&root, lang, 14, rng);
  let h = rule::harvest(&root, src, pats, field_names(lang), rng);
  let case = Case { lang, lname: &lname, fname, src };
  // nested relations over a node with hundreds of children (flat ERROR nodes) are quartic: shallow rules only there
  let wide = root.dfs().map(|n| n.children().len()).max().unwrap_or(0) > 120;
  let (n_rules, max_depth) = if wide { (n_rules / 3 + 1, 1) } else { (n_rules, max_depth) };
  if wide {
    rep.count("sources_wide_node_shallow_rules", 1);
  }
  for k in 0..n_rules {
    let mut utils = gen_utils(&h, rng);
    let cfg = GenCfg { picks: std::cell::Cell::new(0), disjoint_vars: true, max_depth, utils: utils.keys().cloned().collect(), allow_field: true, allow_range: true };
    let mut rule = rule::gen_rule(&h, &cfg, 0, rng);
    if utils.contains_key("UR") && rng.chance(2, 3) {
      // make sure the recursive utility is exercised
      let m = R::Matches("UR".to_string());
      rule = match rng.below(4) {
        0 => R::Any(vec![rule, m]),
        1 => R::All(vec![m, rule]),
        2 => m,
        _ => R::Has(Box::new(m), Stop::End, None),
      };
      rep.count("rules_with_recursive_utility", 1);
    }
    rep.count("utils_decaptured_because_used_twice", keep_variable_disjoint(&rule, &mut utils) as u64);
    let t_rule = std::time::Instant::now();
    let checked = match guarded(|| {
      let mut local = Report::new();
      let r = check_rule(&case, &root, &nodes, &rule, &utils, &mut local);
      (r, local)
    }) {
      Ok((r, local)) => {
        crate::mon::c19::merge(rep, local);
        r
      }
      Err(p) => {
        // a panic outside the guarded implementation call: harness or reference trouble, no verdict
        rep.inconclusive += 1;
        rep.notes.push(format!("inconclusive: panic at {} ({})", p.location, crate::util::clip(&p.message, 80)));
        None
      }
    };
    if std::env::var("VMON_TIMING").is_ok() && t_rule.elapsed().as_secs_f64() > 1.0 {
      eprintln!("SLOW {:.1}s {} nodes={} rule={} utils={:?}", t_rule.elapsed().as_secs_f64(), fname, nodes.len(), rule.to_value(), utils);
    }
    if let Some((t, f)) = checked {
      rep.count("rules", 1);
      if t > 0 && f > 0 {
        rep.nontrivial(hash_parts(&[fname, src, &rule.to_value().to_string()]));
        for op in rule.operators() {
          rep.count(&format!("op.{op}"), 1);
        }
      } else {
        rep.count("rules_trivial", 1);
      }
      if k == 0 && rep.samples.len() < 6 {
        rep.sample(json!({"lang": lname, "file": fname, "rule": rule.to_value(), "true_on": t, "false_on": f}));
      }
    }
  }
}

pub fn run(ctx: &Ctx, rep: &mut Report) {
  if let Some(r) = &ctx.replay {
    replay(r, rep);
    return;
  }
  let mut rng = ctx.rng("c05");
  let files: Vec<SrcFile> = corpus::shard(&corpus::load_all(), ctx.shard, ctx.nshards);
  let (n_rules, depth) = if ctx.thorough { (400, 5) } else { (24, 3) };
  for f in &files {
    let t0 = std::time::Instant::now();
    let text = excerpt(&f.text, if ctx.thorough { 7000 } else { 3500 });
    run_source(f.lang, &f.name, &text, n_rules, depth, &mut rng, rep);
    if std::env::var("VMON_TIMING").is_ok() {
      eprintln!("{} {:.2}s evals={}", f.name, t0.elapsed().as_secs_f64(), rep.evaluations);
    }
    // an error-ridden variant (ERROR nodes are fine, zero-width recovery nodes are not)
    let m = MUTATIONS[rng.below(MUTATIONS.len())];
    let t = corpus::mutate(&text, m, &mut rng);
    run_source(f.lang, &format!("{}#{:?}", f.name, m), &t, n_rules / 2 + 1, depth, &mut rng, rep);
  }
}

// ---------------------------------------------------------------- replay: rebuild R from its Debug form is
// not possible, so replays carry the JSON rule and are re-evaluated through a JSON -> R reader.
pub fn r_from_value(v: &Value) -> Option<R> {
  let o = v.as_object()?;
  let mut parts = vec![];
  for (k, val) in o {
    let stop_of = |m: &serde_json::Map<String, Value>| -> Option<Stop> {
      Some(match m.get("stopBy") {
        None => Stop::Neighbor,
        Some(Value::String(s)) if s == "neighbor" => Stop::Neighbor,
        Some(Value::String(s)) if s == "end" => Stop::End,
        Some(x) => Stop::Rule(Box::new(r_from_value(x)?)),
      })
    };
    let rel_inner = |m: &serde_json::Map<String, Value>| -> Option<R> {
      let mut inner = m.clone();
      inner.remove("stopBy");
      inner.remove("field");
      r_from_value(&Value::Object(inner))
    };
    let r = match k.as_str() {
      "pattern" => match val {
        Value::String(s) => R::Pattern(s.clone()),
        Value::Object(m) => R::PatternObj {
          context: m.get("context")?.as_str()?.to_string(),
          selector: m.get("selector").and_then(|x| x.as_str()).map(|s| s.to_string()),
          strictness: m.get("strictness").and_then(|x| x.as_str()).map(|s| s.to_string()),
        },
        _ => return None,
      },
      "kind" => R::Kind(val.as_str()?.to_string()),
      "regex" => R::Regex(val.as_str()?.to_string()),
      "range" => R::Range(
        val["start"]["line"].as_u64()? as usize,
        val["start"]["column"].as_u64()? as usize,
        val["end"]["line"].as_u64()? as usize,
        val["end"]["column"].as_u64()? as usize,
      ),
      "nthChild" => {
        let (pos, reverse, of, simple) = match val {
          Value::Object(m) => (m.get("position")?.clone(), m.get("reverse").and_then(|x| x.as_bool()).unwrap_or(false), m.get("ofRule").and_then(r_from_value), false),
          other => (other.clone(), false, None, true),
        };
        let (a, b) = match &pos {
          Value::Number(n) => (0, n.as_i64()?),
          Value::String(s) => crate::mon::c20::parse_strict_anb(s)?,
          _ => return None,
        };
        R::Nth { a, b, reverse, of: of.map(Box::new), simple }
      }
      "all" => R::All(val.as_array()?.iter().map(r_from_value).collect::<Option<Vec<_>>>()?),
      "any" => R::Any(val.as_array()?.iter().map(r_from_value).collect::<Option<Vec<_>>>()?),
      "not" => R::Not(Box::new(r_from_value(val)?)),
      "matches" => R::Matches(val.as_str()?.to_string()),
      "inside" | "has" | "precedes" | "follows" => {
        let m = val.as_object()?;
        let inner = Box::new(rel_inner(m)?);
        let stop = stop_of(m)?;
        let field = m.get("field").and_then(|x| x.as_str()).map(|s| s.to_string());
        match k.as_str() {
          "inside" => R::Inside(inner, stop, field),
          "has" => R::Has(inner, stop, field),
          "precedes" => R::Precedes(inner, stop),
          _ => R::Follows(inner, stop),
        }
      }
      _ => return None,
    };
    parts.push(r);
  }
  Some(if parts.len() == 1 { parts.pop().unwrap() } else { R::Obj(parts) })
}

fn replay(r: &Value, rep: &mut Report) {
  let lname = r["lang"].as_str().unwrap();
  let lang = crate::util::lang_of(lname);
  let src = r["source"].as_str().unwrap();
  let Some(rule) = r_from_value(&r["rule"]) else {
    rep.notes.push("replay: cannot read rule".into());
    return;
  };
  let mut utils = BTreeMap::new();
  if let Some(m) = r["utils"].as_object() {
    for (k, v) in m {
      if let Some(u) = r_from_value(v) {
        utils.insert(k.clone(), u);
      }
    }
  }
  let grep = lang.ast_grep(src);
  let root = grep.root();
  let nodes: Vec<N> = match r.get("node").and_then(|x| x.as_array()) {
    Some(a) => {
      let range = a[0].as_u64().unwrap() as usize..a[1].as_u64().unwrap() as usize;
      let kind = r["kind"].as_str().unwrap_or("");
      root.dfs().filter(|n| n.range() == range && n.kind() == kind).collect()
    }
    None => root.dfs().collect(),
  };
  let case = Case { lang, lname, fname: "replay", src };
  check_rule(&case, &root, &nodes, &rule, &utils, rep);
}
