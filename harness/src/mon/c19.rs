//! C19 — tree navigation and positions are mutually consistent on every tree.
//! Oracle: a recursive baseline built from `children()` only.
use crate::corpus::{self, SrcFile, MUTATIONS};
use crate::rng::{hash_parts, Rng};
use crate::util::{guarded, is_missing, line_col, N};
use crate::{Ctx, Report};
use ast_grep_core::matcher::MatchAll;
use ast_grep_core::traversal::{Level, Post, PostOrder, Pre, Visitor};
use ast_grep_core::Language;
use serde_json::json;

struct Rec<'a> {
  node: N<'a>,
  parent: Option<usize>,
  kids: Vec<usize>,
  size: usize,
}

fn build<'a>(n: N<'a>, parent: Option<usize>, out: &mut Vec<Rec<'a>>) -> usize {
  let me = out.len();
  out.push(Rec {
    node: n.clone(),
    parent,
    kids: vec![],
    size: 1,
  });
  let kids: Vec<N<'a>> = n.children().collect();
  let mut ids = vec![];
  let mut size = 1;
  for k in kids {
    let id = build(k, Some(me), out);
    size += out[id].size;
    ids.push(id);
  }
  out[me].kids = ids;
  out[me].size = size;
  me
}

fn pre(recs: &[Rec], i: usize, out: &mut Vec<usize>) {
  out.push(i);
  for &k in &recs[i].kids {
    pre(recs, k, out);
  }
}
fn post(recs: &[Rec], i: usize, out: &mut Vec<usize>) {
  for &k in &recs[i].kids {
    post(recs, k, out);
  }
  out.push(i);
}
fn level(recs: &[Rec], i: usize) -> Vec<usize> {
  let mut out = vec![];
  let mut q = std::collections::VecDeque::new();
  q.push_back(i);
  while let Some(x) = q.pop_front() {
    out.push(x);
    for &k in &recs[x].kids {
      q.push_back(k);
    }
  }
  out
}

/// how a cursor-based sibling sequence deviates from the iterated one
fn seq_shape(got: &[(usize, usize, usize, u16)], want: &[(usize, usize, usize, u16)]) -> &'static str {
  if got.len() < want.len() && want.starts_with(got) {
    "short"
  } else if got.len() == want.len() && got.iter().zip(want).all(|(a, b)| (a.0, a.1, a.2) == (b.0, b.1, b.2)) {
    // same nodes (id and range), only the reported kind differs: alias lost by the cursor
    "alias-kind"
  } else {
    "other"
  }
}

fn key(n: &N) -> (usize, usize, usize, u16) {
  (n.node_id(), n.range().start, n.range().end, n.kind_id())
}

pub fn check_source(lang_name: &str, name: &str, src: &str, rng: &mut Rng, rep: &mut Report) {
  let lang = crate::util::lang_of(lang_name);
  let replay = |clause: &str, extra: serde_json::Value| {
    json!({"monitor":"c19","lang":lang_name,"file":name,"source":src,"clause":clause,"at":extra})
  };
  let res = guarded(|| {
    let mut local = Report::new();
    let rep = &mut local;
    let grep = lang.ast_grep(src);
    let root = grep.root();
    let mut recs = vec![];
    build(root.clone(), None, &mut recs);
    let interesting_file = src.bytes().any(|b| b >= 0x80) || recs.iter().any(|r| r.node.is_error());
    let fh = format!("{:x}", crate::rng::hash_str(src));
    for (i, r) in recs.iter().enumerate() {
      let n = &r.node;
      rep.evaluations += 1;
      let at = json!({"kind": n.kind(), "range":[n.range().start, n.range().end]});
      let parent_kind = r.parent.map(|p| recs[p].node.kind().to_string());
      let pattr = match (&r.parent, &parent_kind) {
        (None, _) => "root".to_string(),
        (Some(p), _) if recs[*p].node.is_error() => "parent=ERROR".to_string(),
        _ => "parent=plain".to_string(),
      };
      if r.kids.len() >= 2 && interesting_file {
        rep.nontrivial(hash_parts(&[&fh, &format!("{:?}", key(n))]));
      }
      // --- children: count, index-based access, parent, nesting
      let kids: Vec<&N> = r.kids.iter().map(|k| &recs[*k].node).collect();
      if n.children().len() != kids.len() {
        rep.violation("C19/children/len", "children().len() disagrees with iteration", replay("children-len", at.clone()));
      }
      let mut prev_end = n.range().start;
      let mut prev_start = n.range().start;
      for (j, c) in kids.iter().enumerate() {
        match n.child(j) {
          Some(cj) if key(&cj) == key(c) => {}
          _ => rep.violation("C19/child-index", "child(i) differs from the i-th of children()", replay("child-index", at.clone())),
        }
        match c.parent() {
          Some(p) if key(&p) == key(n) => {}
          other => {
            let zw = c.range().is_empty();
            let sig = format!("C19/parent/{}{}", if n.is_error() { "under-ERROR" } else { "plain" }, if zw { "/zero-width-child" } else { "" });
            rep.violation(&sig, &format!("child.parent() is not the node (got {:?})", other.map(|p| p.kind().to_string())), replay("parent", at.clone()));
          }
        }
        let cr = c.range();
        if cr.start < n.range().start || cr.end > n.range().end {
          rep.violation("C19/nesting/outside-parent", "child range not nested in parent", replay("nesting", at.clone()));
        }
        if cr.start < prev_start || cr.start < prev_end {
          rep.violation("C19/nesting/order", "child ranges overlap or decrease", replay("nesting-order", at.clone()));
        }
        prev_start = cr.start;
        prev_end = cr.end;
      }
      if n.child(kids.len()).is_some() {
        rep.violation("C19/child-index/extra", "child(len) is Some", replay("child-index", at.clone()));
      }
      // --- ancestors = iterated parent
      {
        let mut chain = vec![];
        let mut cur = r.parent;
        while let Some(p) = cur {
          chain.push(key(&recs[p].node));
          cur = recs[p].parent;
        }
        let got: Vec<_> = n.ancestors().map(|a| key(&a)).collect();
        if got != chain {
          rep.violation(&format!("C19/ancestors/{pattr}"), "ancestors() != iterated parent chain of the baseline", replay("ancestors", at.clone()));
        }
        // iterated parent() as well
        let mut chain2 = vec![];
        let mut cur = n.parent();
        let mut guard = 0;
        while let Some(p) = cur {
          chain2.push(key(&p));
          cur = p.parent();
          guard += 1;
          if guard > 100000 {
            break;
          }
        }
        if chain2 != chain {
          rep.violation(&format!("C19/parent-chain/{pattr}"), "iterated parent() != baseline chain", replay("parent-chain", at.clone()));
        }
      }
      // --- sibling sequences
      {
        let sibs: Vec<usize> = match r.parent {
          Some(p) => recs[p].kids.clone(),
          None => vec![i],
        };
        // the backward cursor walk of tree-sitter is known to misbehave next to ERROR children:
        // keep those cases under their own attribute so that they cannot mask plain parents
        let pattr = if pattr == "parent=plain" && sibs.iter().any(|s| recs[*s].node.is_error() || is_missing(&recs[*s].node)) {
          "error-sibling".to_string()
        } else {
          pattr.clone()
        };
        let all_nonzero = sibs.iter().all(|s| !recs[*s].node.range().is_empty());
        let pos = sibs.iter().position(|s| *s == i).unwrap();
        // work limit (not a verdict): next()/prev() are O(k) under a parent with k children, the iterated
        // chains O(k^2) per child; under very wide parents only the ends and a regular sample are walked
        let k = sibs.len();
        let sampled_out = k > 200 && !(pos < 3 || pos + 3 >= k || pos % (k / 12) == 0);
        if sampled_out {
          rep.count("sibling_checks_sampled_out_wide_parent", 1);
        }
        if all_nonzero && !sampled_out {
          let want_next: Vec<_> = sibs[pos + 1..].iter().map(|s| key(&recs[*s].node)).collect();
          let want_prev: Vec<_> = sibs[..pos].iter().rev().map(|s| key(&recs[*s].node)).collect();
          // iterated next()/prev()
          let mut it_next = vec![];
          let mut cur = n.next();
          while let Some(x) = cur {
            it_next.push(key(&x));
            cur = x.next();
            if it_next.len() > sibs.len() + 2 {
              break;
            }
          }
          let mut it_prev = vec![];
          let mut cur = n.prev();
          while let Some(x) = cur {
            it_prev.push(key(&x));
            cur = x.prev();
            if it_prev.len() > sibs.len() + 2 {
              break;
            }
          }
          if it_next != want_next {
            rep.violation(&format!("C19/next/{pattr}"), "iterated next() != later siblings of the baseline", replay("next", at.clone()));
          }
          if it_prev != want_prev {
            rep.violation(&format!("C19/prev/{pattr}"), "iterated prev() != earlier siblings of the baseline", replay("prev", at.clone()));
          }
          let got_next: Vec<_> = n.next_all().take(sibs.len() + 2).map(|x| key(&x)).collect();
          let got_prev: Vec<_> = n.prev_all().take(sibs.len() + 2).map(|x| key(&x)).collect();
          rep.count("sibling_checks", 1);
          if got_next != it_next {
            let shape = seq_shape(&got_next, &it_next);
            let sig = if shape == "alias-kind" { "C19/next_all/alias-kind".to_string() } else { format!("C19/next_all/{pattr}/{shape}") };
            rep.violation(&sig, &format!("next_all() yields {} nodes, iterated next() {}", got_next.len(), it_next.len()), replay("next_all", at.clone()));
          }
          if got_prev != it_prev {
            let shape = seq_shape(&got_prev, &it_prev);
            let sig = if shape == "alias-kind" { "C19/prev_all/alias-kind".to_string() } else { format!("C19/prev_all/{pattr}/{shape}") };
            rep.violation(&sig, &format!("prev_all() yields {} nodes, iterated prev() {}", got_prev.len(), it_prev.len()), replay("prev_all", at.clone()));
          }
        } else {
          rep.count("sibling_checks_skipped_zero_width", 1);
        }
      }
      // --- positions
      {
        let sp = n.start_pos();
        let ep = n.end_pos();
        let (sl, sc) = line_col(src, n.range().start);
        let (el, ec) = line_col(src, n.range().end);
        if (sp.line(), sp.column(n)) != (sl, sc) || (ep.line(), ep.column(n)) != (el, ec) {
          rep.violation("C19/position", &format!("start/end pos ({},{})-({},{}) but bytes say ({sl},{sc})-({el},{ec})", sp.line(), sp.column(n), ep.line(), ep.column(n)), replay("position", at.clone()));
        }
      }
    }
    // --- traversals from the root and from inner nodes
    let mut starts: Vec<usize> = vec![0];
    let mut big: Vec<usize> = vec![];
    for (i, r) in recs.iter().enumerate().skip(1) {
      if r.size <= 48 && r.size > 1 {
        starts.push(i);
      } else if r.size > 48 {
        big.push(i);
      }
    }
    // leaves: a few
    for _ in 0..5 {
      if recs.len() > 1 {
        starts.push(1 + rng.below(recs.len() - 1));
      }
    }
    rng.shuffle(&mut big);
    starts.extend(big.into_iter().take(25));
    if starts.len() > 600 {
      let keep0 = starts[0];
      rng.shuffle(&mut starts);
      starts.truncate(600);
      starts.push(keep0);
    }
    for s in starts {
      let n = &recs[s].node;
      let at = json!({"kind": n.kind(), "range":[n.range().start, n.range().end], "start_index": s});
      let attr = if s == 0 { "from-root" } else { "from-inner" };
      let mut want = vec![];
      pre(&recs, s, &mut want);
      let want_pre: Vec<_> = want.iter().map(|i| key(&recs[*i].node)).collect();
      let cap = want_pre.len() + 3;
      let got: Vec<_> = Pre::new(n).take(cap).map(|x| key(&x)).collect();
      rep.evaluations += 1;
      if got != want_pre {
        rep.violation(&format!("C19/pre-order/{attr}"), &format!("Pre visits {} nodes, baseline {}", got.len(), want_pre.len()), replay("pre", at.clone()));
      }
      let got: Vec<_> = n.dfs().take(cap).map(|x| key(&x)).collect();
      if got != want_pre {
        rep.violation(&format!("C19/dfs/{attr}"), "dfs() differs from baseline pre-order", replay("dfs", at.clone()));
      }
      let mut want = vec![];
      post(&recs, s, &mut want);
      let want_post: Vec<_> = want.iter().map(|i| key(&recs[*i].node)).collect();
      let got: Vec<_> = Post::new(n).take(cap).map(|x| key(&x)).collect();
      if got != want_post {
        rep.violation(&format!("C19/post-order/{attr}"), &format!("Post visits {} nodes, baseline {}", got.len(), want_post.len()), replay("post", at.clone()));
      }
      let want_level: Vec<_> = level(&recs, s).iter().map(|i| key(&recs[*i].node)).collect();
      let got: Vec<_> = Level::new(n).take(cap).map(|x| key(&x)).collect();
      if got != want_level {
        rep.violation(&format!("C19/level-order/{attr}"), &format!("Level visits {} nodes, baseline {}", got.len(), want_level.len()), replay("level", at.clone()));
      }
      // visitors with a match-all matcher
      let got: Vec<_> = Visitor::new(MatchAll).visit(n.clone()).take(cap).map(|m| key(m.get_node())).collect();
      if got != want_pre {
        rep.violation(&format!("C19/visitor-pre/{attr}"), "Visitor(PreOrder) differs from baseline", replay("visitor-pre", at.clone()));
      }
      let got: Vec<_> = Visitor::new(MatchAll).algorithm::<PostOrder>().visit(n.clone()).take(cap).map(|m| key(m.get_node())).collect();
      if got != want_post {
        rep.violation(&format!("C19/visitor-post/{attr}"), "Visitor(PostOrder) differs from baseline", replay("visitor-post", at.clone()));
      }
      // named_only visitor: named nodes of pre-order
      let want_named: Vec<_> = {
        let mut w = vec![];
        pre(&recs, s, &mut w);
        w.into_iter().filter(|i| recs[*i].node.is_named()).map(|i| key(&recs[i].node)).collect()
      };
      let got: Vec<_> = Visitor::new(MatchAll).named_only(true).visit(n.clone()).take(cap).map(|m| key(m.get_node())).collect();
      if got != want_named {
        rep.violation(&format!("C19/visitor-named/{attr}"), "Visitor(named_only) differs from named nodes of baseline", replay("visitor-named", at.clone()));
      }
      // non-reentrant: only outermost, i.e. with MatchAll just the start node
      let got: Vec<_> = Visitor::new(MatchAll).reentrant(false).visit(n.clone()).take(cap).map(|m| key(m.get_node())).collect();
      if got != vec![key(n)] {
        rep.violation(&format!("C19/visitor-nonreentrant/{attr}"), "non-reentrant Visitor(MatchAll) must yield only the start node", replay("visitor-nonreentrant", at.clone()));
      }
    }
    rep.count("nodes", recs.len() as u64);
    rep.count("error_nodes", recs.iter().filter(|r| r.node.is_error()).count() as u64);
    rep.count("missing_nodes", recs.iter().filter(|r| is_missing(&r.node)).count() as u64);
    local
  });
  match res {
    Ok(local) => merge(rep, local),
    Err(p) => rep.violation(&format!("C19/panic/{}", p.site()), &format!("panic at {}: {}", p.location, p.message), replay("panic", json!(null))),
  }
}

pub fn merge(rep: &mut Report, local: Report) {
  rep.evaluations += local.evaluations;
  rep.nontrivial.extend(local.nontrivial);
  for (k, v) in local.counters {
    rep.count(&k, v);
  }
  for v in local.violations {
    let sig = v["signature"].as_str().unwrap().to_string();
    let what = v["what"].as_str().unwrap().to_string();
    rep.violation(&sig, &what, v["replay"].clone());
  }
  for (sig, n) in local.viol_sigs {
    // keep the true count (violation() above counted the kept witnesses only)
    let e = rep.viol_sigs.entry(sig).or_insert(0);
    if *e < n {
      *e = n;
    }
  }
  rep.inconclusive += local.inconclusive;
}

pub fn variants(f: &SrcFile, rng: &mut Rng, n_mut: usize) -> Vec<(String, String)> {
  let mut out = vec![(f.name.clone(), f.text.clone())];
  for k in 0..n_mut {
    let m = MUTATIONS[rng.below(MUTATIONS.len())];
    let mut t = corpus::mutate(&f.text, m, rng);
    // stack a second mutation sometimes
    if rng.chance(1, 3) {
      let m2 = MUTATIONS[rng.below(MUTATIONS.len())];
      t = corpus::mutate(&t, m2, rng);
    }
    out.push((format!("{}#{:?}{}", f.name, m, k), t));
  }
  out
}

pub fn run(ctx: &Ctx, rep: &mut Report) {
  if let Some(r) = &ctx.replay {
    let mut rng = ctx.rng("c19-replay");
    check_source(r["lang"].as_str().unwrap(), r["file"].as_str().unwrap_or("replay"), r["source"].as_str().unwrap(), &mut rng, rep);
    return;
  }
  let mut rng = ctx.rng("c19");
  let files = corpus::shard(&corpus::load_all(), ctx.shard, ctx.nshards);
  let n_mut = if ctx.thorough { 12 } else { 2 };
  for f in &files {
    let lname = corpus::lang_name(f.lang);
    for (name, text) in variants(f, &mut rng, n_mut) {
      check_source(&lname, &name, &text, &mut rng, rep);
      rep.count(&format!("lang.{lname}"), 1);
    }
  }
  // tiny and degenerate sources for every language
  if ctx.shard == 0 {
    for l in corpus::all_langs() {
      for s in ["", " ", "\n\n", "a", "é", "(", "}", "日本 🦀\n"] {
        check_source(&corpus::lang_name(l), "tiny", s, &mut rng, rep);
      }
    }
  }
  rep.sample(json!({"file": files.first().map(|f| f.name.clone()), "checks": "parent/children/ancestors/siblings/traversals/positions per node"}));
}
