//! Triage helper (not a check): print what the navigation API says around one node.
use crate::util::N;
use crate::{Ctx, Report};
use ast_grep_core::Language;

fn show(n: &N) -> String {
  format!("{}[{}..{}]{}", n.kind(), n.range().start, n.range().end, if n.is_named() { "" } else { "'" })
}

pub fn run(ctx: &Ctx, _rep: &mut Report) {
  let r = ctx.replay.as_ref().expect("--replay");
  let lang = crate::util::lang_of(r["lang"].as_str().unwrap());
  let src = r["source"].as_str().unwrap();
  let grep = lang.ast_grep(src);
  let (a, b) = (r["at"]["range"][0].as_u64().unwrap() as usize, r["at"]["range"][1].as_u64().unwrap() as usize);
  let kind = r["at"]["kind"].as_str().unwrap();
  for n in grep.root().dfs() {
    if n.range() == (a..b) && n.kind() == kind {
      println!("node {}", show(&n));
      if let Some(p) = n.parent() {
        println!("parent {}", show(&p));
        println!("siblings: {}", p.children().map(|c| show(&c)).collect::<Vec<_>>().join(" "));
      }
      println!("prev_all: {}", n.prev_all().take(20).map(|c| show(&c)).collect::<Vec<_>>().join(" "));
      let mut it = vec![];
      let mut cur = n.prev();
      while let Some(x) = cur {
        it.push(show(&x));
        cur = x.prev();
        if it.len() > 20 { break; }
      }
      println!("iter prev: {}", it.join(" "));
      println!("next_all: {}", n.next_all().take(20).map(|c| show(&c)).collect::<Vec<_>>().join(" "));
      let mut it = vec![];
      let mut cur = n.next();
      while let Some(x) = cur {
        it.push(show(&x));
        cur = x.next();
        if it.len() > 20 { break; }
      }
      println!("iter next: {}", it.join(" "));
    }
  }
}

fn pn(p: &ast_grep_core::matcher::PatternNode, depth: usize, out: &mut String) {
  use ast_grep_core::matcher::PatternNode as P;
  let pad = "  ".repeat(depth);
  match p {
    P::MetaVar { meta_var } => out.push_str(&format!("{pad}MetaVar {:?}\n", meta_var)),
    P::Terminal { text, is_named, kind_id } => out.push_str(&format!("{pad}Terminal {:?} named={} kind={}\n", text, is_named, kind_id)),
    P::Internal { kind_id, children } => {
      out.push_str(&format!("{pad}Internal kind={}\n", kind_id));
      for c in children {
        pn(c, depth + 1, out);
      }
    }
  }
}

fn tree(n: &N, depth: usize, out: &mut String) {
  out.push_str(&format!("{}{} kind_id={} {}\n", "  ".repeat(depth), show(n), n.kind_id(), if n.is_leaf() { format!("{:?}", n.text()) } else { String::new() }));
  for c in n.children() {
    tree(&c, depth + 1, out);
  }
}

/// print the pattern tree and the candidate tree of a c02/c03 replay
pub fn patdbg(ctx: &Ctx, _rep: &mut Report) {
  let r = ctx.replay.as_ref().expect("--replay");
  let lang = crate::util::lang_of(r["lang"].as_str().unwrap());
  let pat = ast_grep_core::Pattern::try_new(r["pattern"].as_str().unwrap(), lang).expect("pattern");
  let mut s = String::new();
  pn(&pat.node, 0, &mut s);
  println!("PATTERN\n{s}");
  let src = r["source"].as_str().unwrap();
  let grep = lang.ast_grep(src);
  let (a, b) = (r["node"][0].as_u64().unwrap() as usize, r["node"][1].as_u64().unwrap() as usize);
  for n in grep.root().dfs() {
    if n.range() == (a..b) && n.kind() == r["kind"].as_str().unwrap() {
      let mut s = String::new();
      tree(&n, 0, &mut s);
      println!("CANDIDATE\n{s}");
      break;
    }
  }
}
