//! C14 — suppression comments silence exactly the findings they name, nothing else.
//! Oracle: an independent line model. `c14-files` also emits the generated files and the model's
//! expectation so that the CLI driver can run the same cases through `ast-grep scan`.
use crate::rng::{hash_str, Rng};
use crate::util::{clip, guarded};
use crate::{Ctx, Report};
use ast_grep_config::{from_yaml_string, CombinedScan, GlobalRules, RuleConfig, Severity};
use ast_grep_core::Language;
use ast_grep_language::SupportLang;
use serde_json::{json, Value};
use std::collections::{BTreeMap, BTreeSet};

pub struct LangSpec {
  pub lang: &'static str,
  pub ext: &'static str,
  /// comment styles: (open, close)
  pub comments: &'static [(&'static str, &'static str)],
  pub header: &'static str,
  pub footer: &'static str,
  /// text of the statement that triggers rule i, and the pattern of rule i
  pub stmts: [&'static str; 4],
  pub patterns: [&'static str; 4],
  pub sep: &'static str,
  pub indent: &'static str,
}

pub const SPECS: &[LangSpec] = &[
  LangSpec { lang: "JavaScript", ext: "js", comments: &[("//", ""), ("/*", "*/")], header: "", footer: "", stmts: ["fa();", "fb();", "fc();", "fd();"], patterns: ["fa()", "fb()", "fc()", "fd()"], sep: " ", indent: "" },
  LangSpec { lang: "TypeScript", ext: "ts", comments: &[("//", "")], header: "function w() {\n", footer: "}\n", stmts: ["fa();", "fb();", "fc();", "fd();"], patterns: ["fa()", "fb()", "fc()", "fd()"], sep: " ", indent: "  " },
  LangSpec { lang: "Python", ext: "py", comments: &[("#", "")], header: "", footer: "", stmts: ["fa()", "fb()", "fc()", "fd()"], patterns: ["fa()", "fb()", "fc()", "fd()"], sep: "; ", indent: "" },
  LangSpec { lang: "Ruby", ext: "rb", comments: &[("#", "")], header: "", footer: "", stmts: ["fa()", "fb()", "fc()", "fd()"], patterns: ["fa()", "fb()", "fc()", "fd()"], sep: "; ", indent: "" },
  LangSpec { lang: "Lua", ext: "lua", comments: &[("--", "")], header: "", footer: "", stmts: ["fa()", "fb()", "fc()", "fd()"], patterns: ["fa()", "fb()", "fc()", "fd()"], sep: "; ", indent: "" },
  LangSpec { lang: "Go", ext: "go", comments: &[("//", ""), ("/*", "*/")], header: "package m\nfunc w() {\n", footer: "}\n", stmts: ["fa()", "fb()", "fc()", "fd()"], patterns: ["fa()", "fb()", "fc()", "fd()"], sep: "; ", indent: "\t" },
  LangSpec { lang: "C", ext: "c", comments: &[("//", ""), ("/*", "*/")], header: "void w() {\n", footer: "}\n", stmts: ["fa();", "fb();", "fc();", "fd();"], patterns: ["fa()", "fb()", "fc()", "fd()"], sep: " ", indent: "  " },
  LangSpec { lang: "Java", ext: "java", comments: &[("//", ""), ("/*", "*/")], header: "class W {\nvoid w() {\n", footer: "}\n}\n", stmts: ["fa();", "fb();", "fc();", "fd();"], patterns: ["fa()", "fb()", "fc()", "fd()"], sep: " ", indent: "    " },
  LangSpec { lang: "Rust", ext: "rs", comments: &[("//", ""), ("/*", "*/")], header: "fn w() {\n", footer: "}\n", stmts: ["fa();", "fb();", "fc();", "fd();"], patterns: ["fa()", "fb()", "fc()", "fd()"], sep: " ", indent: "    " },
  LangSpec { lang: "Bash", ext: "sh", comments: &[("#", "")], header: "", footer: "", stmts: ["fa x", "fb x", "fc x", "fd x"], patterns: ["fa x", "fb x", "fc x", "fd x"], sep: "; ", indent: "" },
  LangSpec { lang: "Css", ext: "css", comments: &[("/*", "*/")], header: "a {\n", footer: "}\n", stmts: ["color: red;", "margin: 0;", "top: 1px;", "left: 2px;"], patterns: ["@declaration^color", "@declaration^margin", "@declaration^top", "@declaration^left"], sep: " ", indent: "  " },
  LangSpec { lang: "Yaml", ext: "yml", comments: &[("#", "")], header: "", footer: "", stmts: ["- fa", "- fb", "- fc", "- fd"], patterns: ["fa", "fb", "fc", "fd"], sep: "\u{0}", indent: "" },
  LangSpec { lang: "Html", ext: "html", comments: &[("<!--", "-->")], header: "<div>\n", footer: "</div>\n", stmts: ["<fa></fa>", "<fb></fb>", "<fc></fc>", "<fd></fd>"], patterns: ["<fa></fa>", "<fb></fb>", "<fc></fc>", "<fd></fd>"], sep: " ", indent: "  " },
];

const IDS: [&str; 6] = ["r1", "r2", "r3", "r4", "r1b", "a3"];
/// (rule id, statement it matches): r1b is a twin of r1 and a3 a twin of r3 -- two rules reporting the very
/// same node, one sorted before and one after its twin, with ids that are prefixes of each other
const RULES: [(&str, usize); 6] = [("r1", 0), ("r2", 1), ("r3", 2), ("r4", 3), ("r1b", 0), ("a3", 2)];

fn rules_of(stmt: usize) -> impl Iterator<Item = &'static str> {
  RULES.iter().filter(move |(_, s)| *s == stmt).map(|(id, _)| *id)
}

/// two-line spelling of statement i: (first line, last line)
pub fn ml_parts(spec: &LangSpec, i: usize) -> Option<(String, String)> {
  let st = spec.stmts[i];
  if let Some(k) = st.find("()") {
    return Some((st[..k + 1].to_string(), st[k + 1..].to_string()));
  }
  match spec.lang {
    "Html" => st.find("></").map(|k| (st[..k + 1].to_string(), st[k + 1..].to_string())),
    "Css" => st.split_once(' ').map(|(a, b)| (a.to_string(), b.to_string())),
    "Bash" => st.split_once(' ').map(|(a, b)| (format!("{a} \\"), b.to_string())),
    _ => None,
  }
}

#[derive(Clone, Debug)]
pub struct Comment {
  /// None = suppress everything, Some(ids) = listed ids (may contain unknown ids)
  pub ids: Option<Vec<String>>,
  pub style: usize,
  /// how the ids are separated: ", " | "," | " , " | " ,"
  pub sep: usize,
}

#[derive(Clone, Debug)]
pub struct Line {
  /// 0: ordinary line; 1: first line of a two/three-line statement (stmts = [i]); 2: a comment on its own
  /// line inside that statement; 3: its last line
  pub ml: u8,
  /// indices of the statements that START on this line (each triggers the rules of statement i)
  pub stmts: Vec<usize>,
  /// trailing comment (when stmts non-empty) or own-line comment (when stmts empty)
  pub comment: Option<Comment>,
}

fn comment_text(spec: &LangSpec, c: &Comment) -> String {
  let (open, close) = spec.comments[c.style % spec.comments.len()];
  let body = match &c.ids {
    None => "ast-grep-ignore".to_string(),
    Some(ids) => format!("ast-grep-ignore: {}", ids.join([", ", ",", " , ", " ,"][c.sep % 4])),
  };
  if close.is_empty() {
    format!("{open} {body}")
  } else {
    format!("{open} {body} {close}")
  }
}

pub fn render(spec: &LangSpec, lines: &[Line]) -> String {
  let mut s = String::from(spec.header);
  let mut open_stmt = 0;
  for l in lines {
    s.push_str(spec.indent);
    if l.ml == 1 {
      open_stmt = l.stmts[0];
      s.push_str(&ml_parts(spec, open_stmt).expect("ml form").0);
      s.push('\n');
      continue;
    }
    if l.ml == 3 {
      s.push_str(&ml_parts(spec, open_stmt).expect("ml form").1);
      s.push('\n');
      continue;
    }
    if l.ml == 2 {
      s.push_str("  ");
    }
    if l.ml == 4 {
      // a line no rule reports, whose node includes its line break (C preprocessor directive)
      s.truncate(s.len() - spec.indent.len());
      s.push_str("#define FILLER 1\n");
      continue;
    }
    let st: Vec<&str> = l.stmts.iter().map(|i| spec.stmts[*i]).collect();
    s.push_str(&st.join(spec.sep));
    if let Some(c) = &l.comment {
      if !st.is_empty() {
        s.push(' ');
      }
      s.push_str(&comment_text(spec, c));
    }
    s.push('\n');
  }
  s.push_str(spec.footer);
  s
}

fn header_lines(spec: &LangSpec) -> usize {
  spec.header.matches('\n').count()
}

/// the independent line model: (unsuppressed findings as (rule, file line), unused comment lines)
pub fn model(spec: &LangSpec, lines: &[Line]) -> (BTreeSet<(String, usize)>, BTreeSet<usize>) {
  let h = header_lines(spec);
  let mut findings = BTreeSet::new();
  let mut used = BTreeSet::new();
  let covers = |c: &Comment, rule: &str| match &c.ids {
    None => true,
    Some(ids) => ids.iter().any(|i| i == rule),
  };
  for (i, l) in lines.iter().enumerate() {
    for (s, rule) in l.stmts.iter().flat_map(|s| rules_of(*s).map(move |r| (s, r))) {
      let _ = s;
      let mut suppressed = false;
      // trailing comment on the same line
      if let Some(c) = &l.comment {
        if covers(c, rule) {
          suppressed = true;
          used.insert(i);
        }
      }
      // own-line comment on the previous line
      if i > 0 && lines[i - 1].stmts.is_empty() {
        if let Some(c) = &lines[i - 1].comment {
          if covers(c, rule) {
            suppressed = true;
            used.insert(i - 1);
          }
        }
      }
      if !suppressed {
        findings.insert((rule.to_string(), i + h));
      }
    }
  }
  let unused: BTreeSet<usize> = lines.iter().enumerate().filter(|(i, l)| l.comment.is_some() && !used.contains(i)).map(|(i, _)| i + h).collect();
  (findings, unused)
}

pub fn rules_yaml(spec: &LangSpec) -> Vec<String> {
  RULES
    .iter()
    .map(|(id, i)| {
      let (id, i) = (*id, *i);
      // "@kind^prefix" denotes a kind + regex rule (for grammars where the statement is not a pattern on its own)
      let rule = match spec.patterns[i].strip_prefix('@') {
        Some(kr) => {
          let (k, r) = kr.split_once('^').unwrap();
          json!({"kind": k, "regex": format!("^{r}")})
        }
        None => json!({"pattern": spec.patterns[i]}),
      };
      serde_json::to_string(&json!({"id": id, "language": spec.lang, "rule": rule, "message": format!("m{i}")})).unwrap()
    })
    .collect()
}

fn gen_comment(spec: &LangSpec, rng: &mut Rng) -> Comment {
  let ids = match rng.below(6) {
    0 | 1 => None,
    2 => Some(vec![rng.pick(&IDS).to_string()]),
    3 => {
      let mut v: Vec<String> = IDS.iter().map(|s| s.to_string()).collect();
      rng.shuffle(&mut v);
      v.truncate(2 + rng.below(2));
      Some(v)
    }
    4 => Some(vec!["zz".to_string()]),
    _ => Some(vec![rng.pick(&IDS).to_string(), "zz".to_string()]),
  };
  Comment { ids, style: rng.below(spec.comments.len()), sep: if rng.chance(1, 2) { 0 } else { rng.below(4) } }
}

/// which multi-line spellings the rules of this language really match (checked once by running them)
#[derive(Clone, Copy, Default)]
pub struct MlCap {
  pub two_line: [bool; 4],
  pub with_inner_comment: [bool; 4],
}

pub fn ml_capabilities(spec: &LangSpec) -> MlCap {
  let mut cap = MlCap::default();
  let Ok(lang) = spec.lang.parse::<SupportLang>() else { return cap };
  let Some(rules) = load(&rules_yaml(spec)) else { return cap };
  for i in 0..4 {
    if ml_parts(spec, i).is_none() {
      continue;
    }
    for inner in [false, true] {
      let mut lines = vec![Line { ml: 1, stmts: vec![i], comment: None }];
      if inner {
        // an ordinary comment, not a directive
        lines.push(Line { ml: 2, stmts: vec![], comment: Some(Comment { ids: None, style: 0, sep: 0 }) });
      }
      lines.push(Line { ml: 3, stmts: vec![], comment: None });
      let src = render(spec, &lines).replace("ast-grep-ignore", "just a note");
      let grep = lang.ast_grep(&src);
      let scan = CombinedScan::new(rules.iter().collect());
      let res = scan.scan(&grep, false);
      let h = header_lines(spec);
      let found: BTreeSet<(String, usize)> = res.matches.iter().flat_map(|(r, nms)| nms.iter().map(|nm| (r.id.clone(), nm.start_pos().line()))).collect();
      let want: BTreeSet<(String, usize)> = rules_of(i).map(|r| (r.to_string(), h)).collect();
      let ok = found == want && res.matches.iter().all(|(_, nms)| nms.iter().all(|nm| nm.end_pos().line() == h + lines.len() - 1));
      if inner {
        cap.with_inner_comment[i] = ok;
      } else {
        cap.two_line[i] = ok;
      }
    }
  }
  cap
}

pub fn gen_lines(spec: &LangSpec, rng: &mut Rng, cap: &MlCap) -> Vec<Line> {
  let n = 3 + rng.below(9);
  let one_per_line = spec.sep == "\u{0}";
  let mut lines = vec![];
  for _ in 0..n {
    match rng.below(13) {
      12 if spec.lang == "C" && rng.chance(1, 2) => lines.push(Line { ml: 4, stmts: vec![], comment: None }),
      12 => {
        // an empty line: a comment above it governs nothing
        if spec.sep != "\u{0}" {
          lines.push(Line { ml: 0, stmts: vec![], comment: None });
        } else {
          lines.push(Line { ml: 0, stmts: vec![rng.below(4)], comment: None });
        }
      }
      10 | 11 => {
        // a statement spread over two or three lines: only comments on their own line can govern it
        let i = rng.below(4);
        if !cap.two_line[i] {
          lines.push(Line { ml: 0, stmts: vec![i], comment: None });
          continue;
        }
        lines.push(Line { ml: 1, stmts: vec![i], comment: None });
        if cap.with_inner_comment[i] && rng.chance(1, 2) {
          lines.push(Line { ml: 2, stmts: vec![], comment: Some(gen_comment(spec, rng)) });
        }
        lines.push(Line { ml: 3, stmts: vec![], comment: None });
      }
      0..=2 => lines.push(Line { ml: 0, stmts: vec![], comment: Some(gen_comment(spec, rng)) }),
      3..=5 => {
        let k = if one_per_line { 1 } else { 1 + rng.below(3) };
        let stmts = (0..k).map(|_| rng.below(4)).collect();
        lines.push(Line { ml: 0, stmts, comment: Some(gen_comment(spec, rng)) });
      }
      _ => {
        let k = if one_per_line { 1 } else { 1 + rng.below(3) };
        lines.push(Line { ml: 0, stmts: (0..k).map(|_| rng.below(4)).collect(), comment: None });
      }
    }
  }
  lines
}

fn load(yamls: &[String]) -> Option<Vec<RuleConfig<SupportLang>>> {
  let g = GlobalRules::default();
  let mut out = vec![];
  for y in yamls {
    out.push(from_yaml_string::<SupportLang>(y, &g).ok()?.pop()?);
  }
  Some(out)
}

fn lines_json(lines: &[Line]) -> Value {
  Value::Array(lines.iter().map(|l| json!({"ml": l.ml, "stmts": l.stmts, "comment": l.comment.as_ref().map(|c| json!({"ids": c.ids, "style": c.style, "sep": c.sep}))})).collect())
}
fn lines_from(v: &Value) -> Vec<Line> {
  v.as_array()
    .unwrap()
    .iter()
    .map(|l| Line {
      ml: l["ml"].as_u64().unwrap_or(0) as u8,
      stmts: l["stmts"].as_array().unwrap().iter().map(|x| x.as_u64().unwrap() as usize).collect(),
      comment: match &l["comment"] {
        Value::Null => None,
        c => Some(Comment { ids: c["ids"].as_array().map(|a| a.iter().map(|x| x.as_str().unwrap().to_string()).collect()), style: c["style"].as_u64().unwrap() as usize, sep: c["sep"].as_u64().unwrap_or(0) as usize }),
      },
    })
    .collect()
}

/// which known defect explains a deviation at (file) line `l`?
fn attribute(spec: &LangSpec, lines: &[Line], h: usize, l: usize) -> Option<&'static str> {
  if l < h || l - h >= lines.len() {
    return None;
  }
  let i = l - h;
  let own_prev = i > 0 && lines[i - 1].stmts.is_empty() && lines[i - 1].comment.is_some();
  let own_prev2 = i > 1 && lines[i - 2].stmts.is_empty() && lines[i - 2].comment.is_some();
  let trailing = !lines[i].stmts.is_empty() && lines[i].comment.is_some();
  let is_own = lines[i].stmts.is_empty() && lines[i].comment.is_some();
  // two comments are stored under the same line key: own-line comment before a line with a trailing
  // comment, seen from the finding line or from either comment's line
  let next_trailing = i + 1 < lines.len() && !lines[i + 1].stmts.is_empty() && lines[i + 1].comment.is_some();
  if (own_prev && trailing) || (is_own && next_trailing) {
    return Some("C14/two-comments-one-line");
  }
  let _ = own_prev2;
  // id list inside a comment that needs a terminator
  let terminated = |c: &Comment| !spec.comments[c.style % spec.comments.len()].1.is_empty() && c.ids.is_some();
  let involved: Vec<&Comment> = [if i > 0 { lines[i - 1].comment.as_ref() } else { None }, lines[i].comment.as_ref()].into_iter().flatten().collect();
  if involved.iter().any(|c| terminated(c)) {
    return Some("C14/id-list/terminated-comment");
  }
  None
}

pub fn check_case(spec: &LangSpec, lines: &[Line], rep: &mut Report) -> bool {
  let src = render(spec, lines);
  let replay = json!({"monitor":"c14","lang":spec.lang,"lines":lines_json(lines),"source":src});
  let (want_f, want_u) = model(spec, lines);
  let h = header_lines(spec);
  let r = guarded(|| {
    let lang: SupportLang = spec.lang.parse().unwrap();
    let rules = load(&rules_yaml(spec)).expect("the monitor's own rules must load");
    let unused = CombinedScan::unused_config(Severity::Hint, lang);
    let grep = lang.ast_grep(&src);
    // premise of the model: every statement is found when nothing is suppressed
    let mut scan = CombinedScan::new(rules.iter().collect());
    scan.set_unused_suppression_rule(&unused);
    let res = scan.scan(&grep, false);
    let mut got_f = BTreeSet::new();
    let mut got_u = BTreeSet::new();
    for (rule, nms) in &res.matches {
      for nm in nms {
        let line = nm.start_pos().line();
        if rule.id == "unused-suppression" {
          got_u.insert(line);
        } else {
          got_f.insert((rule.id.clone(), line));
        }
      }
    }
    // multiplicity: several statements of one rule on a line collapse in the set; compare counts too
    let mut got_n: BTreeMap<(String, usize), usize> = BTreeMap::new();
    for (rule, nms) in &res.matches {
      for nm in nms {
        if rule.id != "unused-suppression" {
          *got_n.entry((rule.id.clone(), nm.start_pos().line())).or_insert(0) += 1;
        }
      }
    }
    let nested = grep.root().dfs().any(|n| n.kind().contains("comment") && n.children().any(|c| c.kind().contains("comment")));
    Some((got_f, got_u, got_n, nested))
  });
  let nested_comment = matches!(&r, Ok(Some(x)) if x.3);
  let r = r.map(|o| o.map(|x| (x.0, x.1, x.2)));
  let (got_f, got_u, got_n) = match r {
    Ok(Some(x)) => x,
    Ok(None) => return false,
    Err(p) => {
      rep.violation(&format!("C14/panic/{}", p.site()), &format!("panic at {}: {}", p.location, p.message), replay);
      return false;
    }
  };
  // expected multiplicities
  let mut want_n: BTreeMap<(String, usize), usize> = BTreeMap::new();
  for (i, l) in lines.iter().enumerate() {
    for s in &l.stmts {
      for r in rules_of(*s) {
        let k = (r.to_string(), i + h);
        if want_f.contains(&k) {
          *want_n.entry(k).or_insert(0) += 1;
        }
      }
    }
  }
  let mut report = |kind: &str, line: usize, what: String| {
    let sig = match attribute(spec, lines, h, line) {
      Some(s) => s.to_string(),
      None if nested_comment && kind == "used-reported-unused" => "C14/used-reported-unused/nested-comment-node".to_string(),
      None => format!("C14/{kind}/{}", if spec.comments.iter().any(|c| !c.1.is_empty()) && lines.iter().any(|l| l.comment.as_ref().map(|c| !spec.comments[c.style % spec.comments.len()].1.is_empty()).unwrap_or(false)) { "block-comment-file" } else { "line-comment-file" }),
    };
    rep.violation(&sig, &format!("{} line {line}: {what} :: {}", spec.lang, clip(&src.replace('\n', "⏎"), 300)), replay.clone());
  };
  for f in want_f.difference(&got_f) {
    report("finding-wrongly-suppressed", f.1, format!("{} should be reported", f.0));
  }
  for f in got_f.difference(&want_f) {
    report("finding-not-suppressed", f.1, format!("{} should be suppressed", f.0));
  }
  for u in want_u.difference(&got_u) {
    report("unused-not-reported", *u, "comment silenced nothing but is not reported as unused".into());
  }
  for u in got_u.difference(&want_u) {
    report("used-reported-unused", *u, "comment silenced a finding but is reported as unused".into());
  }
  if got_f == want_f && got_n != want_n {
    report("multiplicity", h, format!("finding counts per line differ: {:?} vs {:?}", got_n, want_n));
  }
  // non-trivial: >= 2 comments and >= 2 findings, some comment carrying an id list
  let n_comments = lines.iter().filter(|l| l.comment.is_some()).count();
  let n_stmts: usize = lines.iter().map(|l| l.stmts.len()).sum();
  n_comments >= 2 && n_stmts >= 2 && lines.iter().any(|l| l.comment.as_ref().map(|c| c.ids.is_some()).unwrap_or(false))
}

pub fn run(ctx: &Ctx, rep: &mut Report) {
  if let Some(r) = &ctx.replay {
    let spec = SPECS.iter().find(|s| s.lang == r["lang"].as_str().unwrap()).expect("lang");
    rep.evaluations += 1;
    check_case(spec, &lines_from(&r["lines"]), rep);
    return;
  }
  let mut rng = ctx.rng("c14");
  let n = ctx.budget(30000, 600000);
  let caps: Vec<MlCap> = SPECS.iter().map(ml_capabilities).collect();
  for (spec, cap) in SPECS.iter().zip(&caps) {
    rep.count(&format!("multi_line_forms.{}", spec.lang), (cap.two_line.iter().filter(|b| **b).count() + cap.with_inner_comment.iter().filter(|b| **b).count()) as u64);
  }
  for i in 0..n {
    let spec = &SPECS[(i + ctx.shard) % SPECS.len()];
    let lines = gen_lines(spec, &mut rng, &caps[(i + ctx.shard) % SPECS.len()]);
    if lines.iter().any(|l| l.ml == 1) {
      rep.count("cases_with_multi_line_statement", 1);
    }
    rep.evaluations += 1;
    if check_case(spec, &lines, rep) {
      rep.nontrivial(hash_str(&format!("{}{}", spec.lang, render(spec, &lines))));
    }
    rep.count(&format!("lang.{}", spec.lang), 1);
    if i < 2 {
      rep.sample(json!({"lang": spec.lang, "source": render(spec, &lines)}));
    }
  }
}

/// `vmon c14-files`: generated cases with the model's expectation, for the CLI driver
pub fn files(ctx: &Ctx, rep: &mut Report) {
  let mut rng = ctx.rng("c14-files");
  let n = ctx.args.iter().find_map(|a| a.strip_prefix("n=").and_then(|v| v.parse::<usize>().ok())).unwrap_or(40);
  let mut out = vec![];
  let caps: Vec<MlCap> = SPECS.iter().map(ml_capabilities).collect();
  for i in 0..n {
    let spec = &SPECS[i % SPECS.len()];
    let lines = gen_lines(spec, &mut rng, &caps[i % SPECS.len()]);
    let (f, u) = model(spec, &lines);
    let h = header_lines(spec);
    let known: Vec<String> = (0..lines.len() + h).filter_map(|l| attribute(spec, &lines, h, l).map(|s| format!("{l}:{s}"))).collect();
    // findings with multiplicity (two statements of one rule on a line are two findings)
    let mut multi = vec![];
    for (li, l) in lines.iter().enumerate() {
      for st in &l.stmts {
        for r in rules_of(*st) {
          if f.contains(&(r.to_string(), li + h)) {
            multi.push(json!([r, li + h]));
          }
        }
      }
    }
    out.push(json!({"lang": spec.lang, "ext": spec.ext, "source": render(spec, &lines), "rules": rules_yaml(spec), "findings_multi": multi,
      "findings": f.iter().map(|(r, l)| json!([r, l])).collect::<Vec<_>>(), "unused": u.iter().collect::<Vec<_>>(), "known_lines": known,
      "lines": lines_json(&lines)}));
  }
  rep.samples = out;
  rep.evaluations = n as u64;
}
