//! C12 — accepted rules are self-consistent: variables, references and rewriters resolve.
//! Valid documents are assembled from parts, then ONE perturbation is applied; the generator knows
//! which perturbations make the document inconsistent. Conversely every accepted document is run
//! on a matching source and its replacement compared with the reference template expansion.
use crate::refsem::template::{expand, line_indent_at, scan};
use crate::rng::{hash_str, Rng};
use crate::util::{clip, guarded};
use crate::{Ctx, Report};
use ast_grep_config::{from_yaml_string, GlobalRules, RuleConfig};
use ast_grep_core::matcher::MatcherExt;
use ast_grep_core::replacer::Replacer;
use ast_grep_core::Language;
use ast_grep_language::SupportLang;
use serde_json::{json, Map, Value};

struct Base {
  lang: &'static str,
  source: &'static str,
  kind_a: &'static str,
  kind_b: &'static str,
}

const BASES: &[Base] = &[
  Base { lang: "JavaScript", source: "foo(abc, 12);\n", kind_a: "identifier", kind_b: "number" },
  Base { lang: "TypeScript", source: "foo(abc, 12);\n", kind_a: "identifier", kind_b: "number" },
  Base { lang: "Python", source: "foo(abc, 12)\n", kind_a: "identifier", kind_b: "integer" },
  Base { lang: "Rust", source: "fn m() { foo(abc, 12); }\n", kind_a: "identifier", kind_b: "integer_literal" },
  Base { lang: "Go", source: "package m\nfunc m() { foo(abc, 12) }\n", kind_a: "identifier", kind_b: "int_literal" },
  Base { lang: "Java", source: "class X { void m() { foo(abc, 12); } }\n", kind_a: "identifier", kind_b: "decimal_integer_literal" },
  Base { lang: "C", source: "void m() { foo(abc, 12); }\n", kind_a: "identifier", kind_b: "number_literal" },
];

#[derive(Clone, Copy, Debug, PartialEq)]
enum Perturb {
  None,
  FixVarString,
  FixVarObject,
  TransformSource,
  ConstraintKey,
  RemoveUtil,
  RemoveRewriter,
  TransformSelf,
  TransformCycle,
  UtilSelfMatches,
  UtilSelfAll,
  UtilSelfAny,
  UtilSelfNot,
  UtilSelfOfRule,
  UtilMutual,
  NoKind,
  /// the utilities stay, the one reference in the rule (or its constraint) is renamed to an undefined id
  DanglingRef,
  /// a rewriter's rule refers to an undefined utility
  DanglingRefInRewriter,
  /// a transformation cycle that goes through a `rewrite`
  TransformCycleRewrite,
  /// a rewriter's own `utils` section holds a utility that refers to an undefined one
  DanglingRefInRewriterUtils,
  /// the rule's kinds would come from a local utility without kinds; a GLOBAL utility of the same id has kinds
  NoKindShadowedGlobal,
  UtilSelfHas, // different-node relation: either outcome, must not crash
}

impl Perturb {
  fn must_reject(&self) -> Option<bool> {
    match self {
      Perturb::None => Some(false),
      Perturb::UtilSelfHas => None,
      _ => Some(true),
    }
  }
  fn name(&self) -> String {
    format!("{:?}", self)
  }
}

const ALL: &[Perturb] = &[
  Perturb::None,
  Perturb::None,
  Perturb::FixVarString,
  Perturb::FixVarObject,
  Perturb::TransformSource,
  Perturb::ConstraintKey,
  Perturb::RemoveUtil,
  Perturb::RemoveRewriter,
  Perturb::TransformSelf,
  Perturb::TransformCycle,
  Perturb::UtilSelfMatches,
  Perturb::UtilSelfAll,
  Perturb::UtilSelfAny,
  Perturb::UtilSelfNot,
  Perturb::UtilSelfOfRule,
  Perturb::UtilMutual,
  Perturb::NoKind,
  Perturb::UtilSelfHas,
  Perturb::DanglingRef,
  Perturb::DanglingRef,
  Perturb::DanglingRefInRewriter,
  Perturb::TransformCycleRewrite,
  Perturb::NoKindShadowedGlobal,
  Perturb::DanglingRefInRewriterUtils,
];

/// a valid document; `object_fix` selects the fix form
fn assemble(b: &Base, rng: &mut Rng, object_fix: bool, force_all: bool, simple_ref: bool) -> Value {
  let (va, vb) = *rng.pick(&[("A", "B"), ("X", "Y"), ("ARG", "NUM"), ("A1", "B_2")]);
  let mut rule = Map::new();
  rule.insert("pattern".into(), json!(format!("foo(${va}, ${vb})")));
  let mut doc = Map::new();
  doc.insert("id".into(), json!("t"));
  doc.insert("language".into(), json!(b.lang));
  let with_util = force_all || rng.chance(2, 3);
  let mut ref_in_constraint = false;
  let with_cons = force_all || rng.chance(1, 2);
  let chain = if force_all { 2 } else { rng.below(4) };
  let with_rw = force_all || rng.chance(1, 2);
  if with_util {
    let u = json!({"U": {"kind": b.kind_b}, "W": {"any": [{"matches": "U"}, {"kind": b.kind_a}]}});
    doc.insert("utils".into(), u);
    // the reference to a utility sits in any position a rule can hold one
    let pos = if simple_ref { rng.below(3) } else { rng.below(12) };
    ref_in_constraint = pos == 8;
    match pos {
      0 => rule.insert("has".into(), json!({"matches": "W", "stopBy": "end"})),
      1 => rule.insert("all".into(), json!([{"has": {"matches": "U", "stopBy": "end"}}])),
      2 => rule.insert("not".into(), json!({"matches": "U"})),
      3 => rule.insert("inside".into(), json!({"matches": "W", "stopBy": "end"})),
      4 => rule.insert(rng.pick(&["follows", "precedes"]).to_string(), json!({"matches": "U", "stopBy": "end"})),
      5 => rule.insert("nthChild".into(), json!({"position": 1, "ofRule": {"matches": "U"}})),
      6 => rule.insert("has".into(), json!({"kind": b.kind_b, "stopBy": {"matches": "U"}})),
      7 => rule.insert("any".into(), json!([{"matches": "W"}, {"kind": b.kind_a}])),
      8 => None,
      9 => rule.insert("has".into(), json!({"nthChild": {"position": 1, "ofRule": {"any": [{"matches": "U"}, {"kind": b.kind_a}]}}, "stopBy": "end"})),
      10 => rule.insert("not".into(), json!({"inside": {"kind": b.kind_a, "stopBy": {"not": {"matches": "W"}}}})),
      _ => rule.insert("has".into(), json!({"all": [{"not": {"matches": "U"}}, {"kind": b.kind_a}], "stopBy": "end"})),
    };
  }
  if with_cons || ref_in_constraint {
    let mut c = Map::new();
    c.insert(va.into(), if ref_in_constraint { json!({"any": [{"matches": "U"}, {"kind": b.kind_a}]}) } else { json!({"kind": b.kind_a}) });
    if rng.chance(1, 2) {
      c.insert(vb.into(), json!({"regex": "^[0-9]+$"}));
    }
    doc.insert("constraints".into(), Value::Object(c));
  }
  let mut fix_vars: Vec<String> = vec![format!("${va}"), format!("${vb}")];
  let mut tr = Map::new();
  let mut prev = format!("${va}");
  // the names either follow the dependency order (T0 <- T1 <- T2) or run against it (T9 <- T8 <- T7)
  let descending = rng.chance(1, 2);
  for i in 0..chain {
    let name = if descending { format!("T{}", 9 - i) } else { format!("T{i}") };
    let t = match rng.below(3) {
      0 => json!({"substring": {"source": prev, "startChar": rng.range(0, 1), "endChar": rng.range(2, 4)}}),
      1 => json!({"replace": {"source": prev, "replace": "[abc]", "by": "z"}}),
      _ => json!({"convert": {"source": prev, "toCase": "upperCase"}}),
    };
    tr.insert(name.clone(), t);
    prev = format!("${name}");
    fix_vars.push(prev.clone());
  }
  if with_rw {
    doc.insert("rewriters".into(), json!([{"id": "rw", "rule": {"kind": b.kind_b}, "fix": "N"}]));
    tr.insert("RW".into(), json!({"rewrite": {"source": format!("${vb}"), "rewriters": ["rw"]}}));
    fix_vars.push("$RW".into());
  }
  if !tr.is_empty() {
    doc.insert("transform".into(), Value::Object(tr));
  }
  rng.shuffle(&mut fix_vars);
  let tpl = format!("bar({})", fix_vars.join(", "));
  if object_fix {
    doc.insert("fix".into(), json!({"template": tpl}));
  } else {
    doc.insert("fix".into(), json!(tpl));
  }
  doc.insert("rule".into(), Value::Object(rule));
  doc.insert("_va".into(), json!(va));
  doc.insert("_vb".into(), json!(vb));
  Value::Object(doc)
}

fn fix_template(doc: &Value) -> String {
  match &doc["fix"] {
    Value::String(s) => s.clone(),
    o => o["template"].as_str().unwrap_or("").to_string(),
  }
}
fn set_fix_template(doc: &mut Value, tpl: String) {
  if doc["fix"].is_string() {
    doc["fix"] = json!(tpl);
  } else {
    doc["fix"]["template"] = json!(tpl);
  }
}

/// apply one perturbation; returns false when the document lacks the part to perturb
fn perturb(doc: &mut Value, p: Perturb, b: &Base) -> bool {
  let va = doc["_va"].as_str().unwrap().to_string();
  match p {
    Perturb::None => true,
    Perturb::FixVarString | Perturb::FixVarObject => {
      let want_obj = p == Perturb::FixVarObject;
      if doc["fix"].is_object() != want_obj {
        return false;
      }
      let tpl = fix_template(doc);
      set_fix_template(doc, tpl.replacen(&format!("${va}"), "$ZZ", 1));
      true
    }
    Perturb::TransformSource => {
      let Some(t) = doc.get_mut("transform").and_then(|t| t.as_object_mut()) else { return false };
      let Some((_, first)) = t.iter_mut().next() else { return false };
      let Some((_, body)) = first.as_object_mut().unwrap().iter_mut().next() else { return false };
      body["source"] = json!("$ZZ");
      true
    }
    Perturb::ConstraintKey => {
      let Some(c) = doc.get_mut("constraints").and_then(|t| t.as_object_mut()) else { return false };
      let Some(k) = c.keys().next().cloned() else { return false };
      let v = c.remove(&k).unwrap();
      c.insert("ZZ".into(), v);
      true
    }
    Perturb::RemoveUtil => {
      let Some(u) = doc.get_mut("utils").and_then(|t| t.as_object_mut()) else { return false };
      u.remove("U");
      if u.is_empty() {
        doc.as_object_mut().unwrap().remove("utils");
      }
      true
    }
    Perturb::DanglingRef => {
      fn rename(v: &mut Value) -> bool {
        match v {
          Value::Object(m) => {
            if let Some(x) = m.get_mut("matches") {
              *x = json!("ZZ");
              return true;
            }
            m.values_mut().any(rename)
          }
          Value::Array(a) => a.iter_mut().any(rename),
          _ => false,
        }
      }
      if doc.get("utils").is_none() {
        return false;
      }
      rename(&mut doc["rule"]) || doc.get_mut("constraints").map(rename).unwrap_or(false)
    }
    Perturb::DanglingRefInRewriter => {
      let Some(rws) = doc.get_mut("rewriters").and_then(|r| r.as_array_mut()) else { return false };
      let Some(first) = rws.first_mut() else { return false };
      first["rule"]["not"] = json!({"matches": "ZZ"});
      true
    }
    Perturb::DanglingRefInRewriterUtils => {
      let Some(rws) = doc.get_mut("rewriters").and_then(|r| r.as_array_mut()) else { return false };
      let Some(first) = rws.first_mut() else { return false };
      first["utils"] = json!({"RU": {"any": [{"kind": b.kind_b}, {"matches": "ZZ"}]}});
      first["rule"] = json!({"matches": "RU"});
      true
    }
    Perturb::TransformCycleRewrite => {
      let Some(t) = doc.get_mut("transform").and_then(|t| t.as_object_mut()) else { return false };
      if !(t.contains_key("T0") && t.contains_key("RW")) {
        return false;
      }
      let body = t.get_mut("T0").unwrap().as_object_mut().unwrap().iter_mut().next().unwrap().1;
      body["source"] = json!("$RW");
      t.get_mut("RW").unwrap()["rewrite"]["source"] = json!("$T0");
      true
    }
    Perturb::NoKindShadowedGlobal => {
      let o = doc.as_object_mut().unwrap();
      o.insert("rule".into(), json!({"matches": "S"}));
      o.insert("utils".into(), json!({"S": {"regex": "foo"}}));
      o.remove("constraints");
      o.remove("transform");
      o.remove("rewriters");
      o.insert("_global".into(), json!([{"id": "S", "language": b.lang, "rule": {"kind": b.kind_a}}]));
      set_fix_template(doc, "bar()".to_string());
      true
    }
    Perturb::RemoveRewriter => {
      if doc.get("rewriters").is_none() {
        return false;
      }
      doc.as_object_mut().unwrap().remove("rewriters");
      true
    }
    Perturb::TransformSelf => {
      let Some(t) = doc.get_mut("transform").and_then(|t| t.as_object_mut()) else { return false };
      let Some(k) = t.keys().find(|k| k.starts_with('T')).cloned() else { return false };
      let body = t.get_mut(&k).unwrap().as_object_mut().unwrap().iter_mut().next().unwrap().1;
      body["source"] = json!(format!("${k}"));
      true
    }
    Perturb::TransformCycle => {
      let Some(t) = doc.get_mut("transform").and_then(|t| t.as_object_mut()) else { return false };
      if !(t.contains_key("T0") && t.contains_key("T1")) {
        return false;
      }
      // T1 already reads $T0; make T0 read $T1
      let body = t.get_mut("T0").unwrap().as_object_mut().unwrap().iter_mut().next().unwrap().1;
      body["source"] = json!("$T1");
      true
    }
    Perturb::UtilSelfMatches | Perturb::UtilSelfAll | Perturb::UtilSelfAny | Perturb::UtilSelfNot | Perturb::UtilSelfOfRule | Perturb::UtilMutual | Perturb::UtilSelfHas => {
      let Some(u) = doc.get_mut("utils").and_then(|t| t.as_object_mut()) else { return false };
      let k = b.kind_b;
      match p {
        Perturb::UtilSelfMatches => u.insert("U".into(), json!({"matches": "U"})),
        Perturb::UtilSelfAll => u.insert("U".into(), json!({"all": [{"kind": k}, {"matches": "U"}]})),
        Perturb::UtilSelfAny => u.insert("U".into(), json!({"any": [{"kind": k}, {"matches": "U"}]})),
        Perturb::UtilSelfNot => u.insert("U".into(), json!({"kind": k, "not": {"matches": "U"}})),
        Perturb::UtilSelfOfRule => u.insert("U".into(), json!({"kind": k, "nthChild": {"position": 1, "ofRule": {"matches": "U"}}})),
        Perturb::UtilMutual => {
          u.insert("U".into(), json!({"kind": k, "matches": "W"}));
          u.insert("W".into(), json!({"any": [{"matches": "U"}, {"kind": b.kind_a}]}))
        }
        _ => u.insert("U".into(), json!({"kind": "arguments", "has": {"matches": "U"}})),
      };
      true
    }
    Perturb::NoKind => {
      let r = doc["rule"].as_object_mut().unwrap();
      r.remove("pattern");
      r.insert("regex".into(), json!("foo"));
      // nothing else in the generated rule gives a kind (has / all:[has] / not)
      doc.as_object_mut().unwrap().remove("constraints");
      let tpl = "bar()".to_string();
      set_fix_template(doc, tpl);
      doc.as_object_mut().unwrap().remove("transform");
      doc.as_object_mut().unwrap().remove("rewriters");
      true
    }
  }
}

fn strip_private(doc: &Value) -> Value {
  let mut m = doc.as_object().unwrap().clone();
  m.remove("_va");
  m.remove("_vb");
  m.remove("_global");
  Value::Object(m)
}

fn load(yaml: &str, globals: Option<&Value>) -> Result<RuleConfig<SupportLang>, String> {
  let g = match globals.and_then(|g| g.as_array()) {
    Some(list) => {
      let mut sers = vec![];
      for d in list {
        sers.push(ast_grep_config::from_str(&d.to_string()).map_err(|e| format!("global: {e}"))?);
      }
      ast_grep_config::DeserializeEnv::parse_global_utils(sers).map_err(|e| format!("global: {e}"))?
    }
    None => GlobalRules::default(),
  };
  let mut v = from_yaml_string::<SupportLang>(yaml, &g).map_err(|e| {
    let mut msg = format!("{e}");
    let mut src = std::error::Error::source(&e);
    while let Some(s) = src {
      msg = format!("{s}");
      src = s.source();
    }
    msg
  })?;
  if v.len() != 1 {
    return Err("docs".into());
  }
  Ok(v.remove(0))
}

pub fn check_doc(lang_name: &str, source: &str, doc: &Value, p_name: &str, must_reject: Option<bool>, run_it: bool, rep: &mut Report) {
  let yaml = serde_json::to_string(&strip_private(doc)).unwrap();
  let replay = json!({"monitor":"c12","lang":lang_name,"source":source,"doc":doc,"perturbation":p_name,"must_reject":must_reject,"run":run_it});
  let loaded = guarded(|| load(&yaml, doc.get("_global")));
  let cfg = match loaded {
    Err(p) => {
      rep.violation(&format!("C12/panic-load/{}", p.site()), &format!("[{p_name}] loading panicked at {}: {}", p.location, p.message), replay);
      return;
    }
    Ok(Err(e)) => {
      if must_reject == Some(false) {
        rep.violation("C12/valid-rejected", &format!("[{p_name}] a consistent document is rejected: {e}; {}", clip(&yaml, 300)), replay);
      }
      rep.count(&format!("rejected.{p_name}"), 1);
      return;
    }
    Ok(Ok(c)) => c,
  };
  rep.count(&format!("accepted.{p_name}"), 1);
  if must_reject == Some(true) {
    rep.violation(&format!("C12/inconsistent-accepted/{p_name}"), &format!("[{p_name}] an inconsistent document is accepted: {}", clip(&yaml, 400)), replay);
    return;
  }
  if !run_it {
    return;
  }
  // converse: the replacement must be the reference expansion over captured AND transformed values
  let lang = crate::util::lang_of(lang_name);
  let r = guarded(|| {
    let grep = lang.ast_grep(source);
    let nm = grep.root().dfs().find_map(|n| cfg.matcher.match_node(n))?;
    let fixer = cfg.matcher.fixer.as_ref()?;
    let got = String::from_utf8_lossy(&fixer.generate_replacement(&nm)).to_string();
    let tpl = fix_template(doc);
    let pieces = scan(&tpl)?;
    let env = nm.get_env();
    let lookup = |name: &str, multi: bool| -> Option<(String, usize)> {
      if multi {
        let v = env.get_multiple_matches(name);
        if v.is_empty() {
          return None;
        }
        return Some((source[v[0].range().start..v[v.len() - 1].range().end].to_string(), 0));
      }
      if let Some(n) = env.get_match(name) {
        return Some((source[n.range()].to_string(), line_indent_at(source, n.range().start)));
      }
      env.get_transformed(name).map(|b| (String::from_utf8_lossy(b).to_string(), 0))
    };
    let want = expand(&pieces, &lookup, line_indent_at(source, nm.range().start));
    // the chain of substring / replace / convert transformations is recomputed from the captured text
    let mut chain_bad = None;
    if let Some(tr) = doc.get("transform").and_then(|t| t.as_object()) {
      let val = |name: &str| -> Option<String> {
        if let Some(n) = env.get_match(name) {
          return Some(source[n.range()].to_string());
        }
        env.get_transformed(name).map(|b| String::from_utf8_lossy(b).to_string())
      };
      for (name, t) in tr {
        let Some((op, body)) = t.as_object().and_then(|o| o.iter().next()) else { continue };
        let Some(srcv) = body["source"].as_str().map(|x| x.trim_start_matches('$')) else { continue };
        // the source must be a plain transformation or capture (not a multi capture / rewrite)
        let Some(input) = val(srcv) else { continue };
        let expected = match op.as_str() {
          "substring" => {
            let chars: Vec<char> = input.chars().collect();
            let n = chars.len() as i64;
            let norm = |v: Option<i64>, d: i64| match v {
              None => d,
              Some(v) if v < 0 => (n + v).max(0),
              Some(v) => v.min(n),
            };
            let (a, b) = (norm(body["startChar"].as_i64(), 0), norm(body["endChar"].as_i64(), n));
            if a >= b { String::new() } else { chars[a as usize..b as usize].iter().collect() }
          }
          "replace" => match regex::Regex::new(body["replace"].as_str().unwrap_or("")) {
            Ok(re) => re.replace_all(&input, body["by"].as_str().unwrap_or("")).to_string(),
            Err(_) => continue,
          },
          "convert" if body["toCase"] == "upperCase" => input.to_uppercase(),
          _ => continue,
        };
        let got_t = env.get_transformed(name).map(|b| String::from_utf8_lossy(b).to_string());
        if got_t.as_deref() != Some(expected.as_str()) {
          chain_bad = Some(format!("transformation {name} = {op}({srcv}={input:?}) is {got_t:?}, expected {expected:?}"));
          break;
        }
      }
    }
    if let Some(b) = chain_bad {
      return Some((b, String::new()));
    }
    Some((got, want))
  });
  match r {
    Ok(Some((got, want))) => {
      rep.count("converse_checked", 1);
      if want.is_empty() && got.starts_with("transformation ") {
        rep.violation("C12/transform-chain/value", &format!("{got} ({})", clip(&yaml, 300)), replay);
      } else if got != want {
        let form = if doc["fix"].is_object() { "fix-object" } else { "fix-string" };
        rep.violation(&format!("C12/{form}/replacement-differs"), &format!("accepted rule rewrites to {:?}, but its variables expand to {:?} ({})", got, want, clip(&yaml, 300)), replay);
      }
    }
    Ok(None) => rep.count("converse_no_match", 1),
    Err(p) => rep.violation(&format!("C12/panic-run/{}", p.site()), &format!("[{p_name}] panic at {}: {}", p.location, p.message), replay),
  }
}

pub fn run(ctx: &Ctx, rep: &mut Report) {
  if let Some(r) = &ctx.replay {
    let mr = match &r["must_reject"] {
      Value::Bool(b) => Some(*b),
      _ => None,
    };
    rep.evaluations += 1;
    check_doc(r["lang"].as_str().unwrap(), r["source"].as_str().unwrap(), &r["doc"], r["perturbation"].as_str().unwrap_or("replay"), mr, r["run"].as_bool().unwrap_or(false), rep);
    return;
  }
  let mut rng = ctx.rng("c12");
  let n = ctx.budget(40000, 1000000);
  for i in 0..n {
    let b = &BASES[rng.below(BASES.len())];
    let p = ALL[(i + ctx.shard) % ALL.len()];
    let object_fix = match p {
      Perturb::FixVarObject => true,
      Perturb::FixVarString => false,
      _ => rng.chance(1, 2),
    };
    let needs_all = !matches!(p, Perturb::None | Perturb::NoKind);
    let mut doc = assemble(b, &mut rng, object_fix, needs_all, p == Perturb::NoKind);
    if !perturb(&mut doc, p, b) {
      continue;
    }
    rep.evaluations += 1;
    // cyclic utilities are never executed: an accepted cycle would recurse without bound
    let run_it = matches!(p, Perturb::None | Perturb::UtilSelfHas);
    check_doc(b.lang, b.source, &doc, &p.name(), p.must_reject(), run_it, rep);
    if p != Perturb::None {
      rep.nontrivial(hash_str(&format!("{}{}", p.name(), strip_private(&doc))));
    }
    rep.count(&format!("class.{}", p.name()), 1);
    if i < 2 {
      rep.sample(json!({"perturbation": p.name(), "doc": strip_private(&doc)}));
    }
  }
}
