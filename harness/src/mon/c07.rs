//! C07 — fix templates substitute captured code verbatim and keep relative indentation.
use crate::corpus::{self, SrcFile};
use crate::gen;
use crate::mon::c05::excerpt;
use crate::refsem::template::{capture_in_scope, expand, line_indent_at, scan, Piece};
use crate::rng::{hash_parts, Rng};
use crate::util::{clip, guarded, N};
use crate::{Ctx, Report};
use ast_grep_config::{from_yaml_string, GlobalRules};
use ast_grep_core::matcher::MatcherExt;
use ast_grep_core::replacer::{Replacer, TemplateFix};
use ast_grep_core::{Language, NodeMatch, Pattern, StrDoc};
use ast_grep_language::SupportLang;
use serde_json::json;

type NM<'a> = NodeMatch<'a, StrDoc<SupportLang>>;

/// (text, indentation of the line on which the capture starts) for a variable of the match
fn lookup(nm: &NM, src: &str, name: &str, multi: bool) -> Option<(String, usize)> {
  let env = nm.get_env();
  if multi {
    let v = env.get_multiple_matches(name);
    if v.is_empty() {
      return None;
    }
    let (s, e) = (v[0].range().start, v[v.len() - 1].range().end);
    Some((src[s..e].to_string(), line_indent_at(src, s)))
  } else {
    let n = env.get_match(name)?;
    Some((src[n.range()].to_string(), line_indent_at(src, n.range().start)))
  }
}

/// the reference value of a template at a match, or None when some capture is outside the
/// statement's restriction (then the case carries no indentation verdict)
fn reference(tpl: &str, nm: &NM, src: &str) -> Option<(String, bool)> {
  let pieces = scan(tpl)?;
  let start = nm.range().start;
  let ls = src[..start].rfind('\n').map(|i| i + 1).unwrap_or(0);
  if start - ls > 480 {
    return None; // beyond the implementation's documented look-behind window
  }
  let mut multiline_capture = false;
  for p in &pieces {
    if let Piece::Var { name, multi, .. } = p {
      if let Some((text, c)) = lookup(nm, src, name, *multi) {
        if text.contains('\n') {
          multiline_capture = true;
          if !capture_in_scope(&text, c) {
            return None;
          }
        }
      }
    }
  }
  if tpl.contains('\t') || tpl.contains('\r') {
    return None;
  }
  let m = line_indent_at(src, start);
  let out = expand(&pieces, &|n, multi| lookup(nm, src, n, multi), m);
  Some((out, multiline_capture))
}

const LITS: &[&str] = &["foo(", ")", " + ", "é🦀", "$x", "$ ", "a$", "x", "y_", " ", ", ", "{", "}", "// c", "$lower", "日本"];

fn gen_template(vars: &[(String, bool)], rng: &mut Rng) -> String {
  let mut t = String::new();
  let n = 1 + rng.below(6);
  let mut last_var = false;
  for _ in 0..n {
    match rng.below(7) {
      0..=2 if !vars.is_empty() => {
        let (name, multi) = rng.pick(vars);
        let sig = if *multi {
          "$$$"
        } else if rng.chance(1, 4) {
          "$$"
        } else {
          "$"
        };
        t.push_str(sig);
        t.push_str(name);
        last_var = true;
        continue;
      }
      3 => {
        // newline with an indentation for the following slot
        t.push('\n');
        t.push_str(&" ".repeat(*rng.pick(&[0usize, 2, 4, 7])));
      }
      4 if rng.chance(1, 3) => {
        t.push_str("$UNBOUND");
        last_var = true;
        continue;
      }
      _ => {
        let l = *rng.pick(LITS);
        if last_var && l.starts_with(|c: char| c.is_ascii_uppercase() || c == '_' || c.is_ascii_digit()) {
          t.push(' ');
        }
        t.push_str(l);
      }
    }
    last_var = false;
  }
  t
}

fn reindent_source(src: &str, k: usize) -> String {
  if k == 0 {
    return src.to_string();
  }
  let pad = " ".repeat(k);
  src.split('\n').map(|l| if l.is_empty() { l.to_string() } else { format!("{pad}{l}") }).collect::<Vec<_>>().join("\n")
}

fn deindent_text(text: &str, m: usize) -> Option<String> {
  let mut out = String::new();
  for (i, l) in text.split('\n').enumerate() {
    if i == 0 {
      out.push_str(l);
      continue;
    }
    out.push('\n');
    if l.trim().is_empty() {
      return None;
    }
    let ind = l.chars().take_while(|c| *c == ' ').count();
    if ind < m {
      return None;
    }
    out.push_str(&l[m..]);
  }
  Some(out)
}

pub fn check_case(lang: SupportLang, lname: &str, fname: &str, src: &str, pattern: &str, node_range: (usize, usize), kind: &str, tpl: &str, identity: bool, rep: &mut Report) -> bool {
  let replay = json!({"monitor":"c07","lang":lname,"file":fname,"source":src,"pattern":pattern,"node":[node_range.0,node_range.1],"kind":kind,"template":tpl,"identity":identity});
  let r = guarded(|| {
    let grep = lang.ast_grep(src);
    let node = grep.root().dfs().find(|n| n.range() == (node_range.0..node_range.1) && n.kind() == kind)?;
    let pat = Pattern::try_new(pattern, lang).ok()?;
    let nm = pat.match_node(node.clone())?;
    let (want, ml) = reference(tpl, &nm, src)?;
    let fix = TemplateFix::try_new(tpl, &lang).ok()?;
    let got = String::from_utf8_lossy(&fix.generate_replacement(&nm)).to_string();
    let got2 = String::from_utf8_lossy(&nm.replace_by(tpl).inserted_text).to_string();
    let mut sigs = vec![];
    let cls = if ml { "multi-line-capture" } else if tpl.contains('\n') { "multi-line-template" } else { "single-line" };
    if got != want {
      sigs.push((format!("C07/expansion/{cls}"), format!("template {:?} at `{}` gives {:?}, reference {:?}", clip(tpl, 80), clip(&node.text(), 40), clip(&got, 160), clip(&want, 160))));
    }
    if got2 != got {
      sigs.push(("C07/str-replacer-differs".to_string(), "replace_by(&str) differs from TemplateFix".to_string()));
    }
    if identity && got != node.text() {
      sigs.push((format!("C07/identity/{cls}"), format!("rewriting `{}` to itself gives {:?}", clip(&node.text(), 80), clip(&got, 160))));
    }
    Some((sigs, ml || tpl.contains('\n')))
  });
  match r {
    Ok(Some((sigs, nt))) => {
      for (sig, what) in sigs {
        rep.violation(&sig, &what, replay.clone());
      }
      rep.count("verdicts", 1);
      nt
    }
    Ok(None) => {
      rep.count("no_verdict", 1);
      false
    }
    Err(p) => {
      rep.violation(&format!("C07/panic/{}", p.site()), &format!("panic at {}: {}", p.location, p.message), replay);
      false
    }
  }
}

/// transformed variables (substring / replace) in templates, through a real rule
fn check_transformed(lang: SupportLang, lname: &str, fname: &str, src: &str, node: &N, rng: &mut Rng, rep: &mut Report) {
  let text = node.text().to_string();
  if text.contains('\n') || text.len() > 60 || text.contains('$') {
    return;
  }
  // beyond the implementation's documented 512-byte look-behind the match indentation counts as 0
  let ls = src[..node.range().start].rfind('\n').map(|i| i + 1).unwrap_or(0);
  if node.range().start - ls > 480 {
    return;
  }
  let chars: Vec<char> = text.chars().collect();
  let (s, e) = (rng.range(-3, 3), rng.range(-3, 6));
  let slice = |s: i64, e: i64| -> String {
    let len = chars.len() as i64;
    let norm = |v: i64| if v < 0 { (len + v).max(0) } else { v.min(len) };
    let (a, b) = (norm(s), norm(e));
    if a >= b {
      String::new()
    } else {
      chars[a as usize..b as usize].iter().collect()
    }
  };
  let tpl = *rng.pick(&["<$T>", "a $T\n    $T b", "$T$A", "x$$T"]);
  let yaml = serde_json::to_string(&json!({"id":"t","language":lname,"rule":{"kind":node.kind(),"pattern":"$A"},
    "transform":{"T":{"substring":{"source":"$A","startChar":s,"endChar":e}}},"fix":tpl}))
  .unwrap();
  let replay = json!({"monitor":"c07","case":"transformed","lang":lname,"file":fname,"source":src,"rule":yaml,"node":[node.range().start,node.range().end],"kind":node.kind()});
  let r = guarded(|| {
    let g = GlobalRules::default();
    let mut v = from_yaml_string::<SupportLang>(&yaml, &g).ok()?;
    let cfg = v.pop()?;
    let nm = cfg.matcher.match_node(node.clone())?;
    let fixer = cfg.matcher.fixer.as_ref()?;
    let got = String::from_utf8_lossy(&fixer.generate_replacement(&nm)).to_string();
    let t = slice(s, e);
    let m = line_indent_at(src, node.range().start);
    let pieces = scan(tpl)?;
    let want = expand(&pieces, &|n, _| if n == "T" { Some((t.clone(), 0)) } else if n == "A" { Some((text.clone(), 0)) } else { None }, m);
    Some((got, want))
  });
  rep.evaluations += 1;
  match r {
    Ok(Some((got, want))) => {
      rep.count("verdicts_transformed", 1);
      if got != want {
        rep.violation("C07/expansion/transformed", &format!("template {:?} with T=substring({text:?},{s},{e}) gives {:?}, reference {:?}", tpl, got, want), replay);
      }
    }
    Ok(None) => {}
    Err(p) => rep.violation(&format!("C07/panic/{}", p.site()), &format!("panic at {}: {}", p.location, p.message), replay),
  }
}

/// a transformation whose source is a multi-line `$$$ARGS`: the transformed text keeps the
/// relative indentation of its lines (de-indented by the line of the FIRST member, as the capture itself)
fn check_transformed_multi(rng: &mut Rng, rep: &mut Report) {
  let m = rng.below(7);
  let n = 2 + rng.below(4);
  let first_on_own_line = rng.chance(3, 10);
  let k0 = if first_on_own_line { rng.below(10) } else { m };
  let mut call = String::from("foo(");
  for i in 0..n {
    let name = if rng.chance(1, 2) { format!("aQQ{i}") } else { format!("b{i}") };
    if i == 0 {
      if first_on_own_line {
        call.push('\n');
        call.push_str(&" ".repeat(k0));
      }
    } else if rng.chance(3, 4) {
      let k = if rng.chance(17, 20) { k0 + rng.below(9) } else { rng.below(k0 + 1) };
      call.push_str(",\n");
      call.push_str(&" ".repeat(k));
    } else {
      call.push_str(", ");
    }
    call.push_str(&name);
  }
  call.push_str(if rng.chance(3, 10) { "\n)" } else { ")" });
  let src = format!("function f() {{\n{}{call};\n}}\n", " ".repeat(m));
  let tpl = *rng.pick(&["bar($NEW)", "bar(\n    $NEW)", "x = [$NEW, 1]", "$NEW"]);
  let yaml = serde_json::to_string(&json!({"id":"t","language":"JavaScript","rule":{"pattern":"foo($$$ARGS)"},
    "transform":{"NEW":{"replace":{"source":"$$$ARGS","replace":"QQ","by":"R"}}},"fix":tpl}))
  .unwrap();
  let replay = json!({"monitor":"c07","case":"transformed","source":src,"rule":yaml});
  let r = guarded(|| {
    let g = GlobalRules::default();
    let mut v = from_yaml_string::<SupportLang>(&yaml, &g).ok()?;
    let cfg = v.pop()?;
    let grep = SupportLang::JavaScript.ast_grep(&src);
    let nm = grep.root().find(&cfg.matcher)?;
    let fixer = cfg.matcher.fixer.as_ref()?;
    let got = String::from_utf8_lossy(&fixer.generate_replacement(&nm)).to_string();
    let (text, c) = lookup(&nm, &src, "ARGS", true)?;
    let pieces = scan(tpl)?;
    let mm = line_indent_at(&src, nm.range().start);
    let want = expand(&pieces, &|n, _| if n == "NEW" { Some((text.replace("QQ", "R"), c)) } else { None }, mm);
    Some((got, want, text.contains('\n'), capture_in_scope(&text, c)))
  });
  rep.evaluations += 1;
  match r {
    Ok(Some((got, want, ml, scope))) => {
      if !scope {
        rep.count("no_verdict", 1);
        return;
      }
      rep.count("verdicts_transformed_multi", 1);
      if ml {
        rep.count("verdicts_transformed_multi_line", 1);
      }
      if got != want {
        rep.violation("C07/expansion/transformed-multi", &format!("template {:?} with NEW=replace($$$ARGS) on {:?} gives {:?}, reference {:?}", tpl, call, got, want), replay);
      }
    }
    Ok(None) => rep.count("transformed_multi_no_match", 1),
    Err(p) => rep.violation(&format!("C07/panic/{}", p.site()), &format!("panic at {}: {}", p.location, p.message), replay),
  }
}

/// match sites far into a long line (around and beyond the implementation's 512-byte look-behind):
/// a single-line template around a multi-line `$$$ARGS` whose first member sits on the line of the
/// match start must reproduce the continuation lines unchanged (c == m whatever the site is)
fn check_long_line(rng: &mut Rng, rep: &mut Report) {
  let l = if rng.chance(1, 2) { 0 } else { rng.below(9) };
  let col = match rng.below(4) {
    0 => 20 + rng.below(400),
    1 => 470 + rng.below(80),
    _ => 560 + rng.below(900),
  };
  let mut line = " ".repeat(l);
  line.push_str("const s = \"");
  while line.len() + 3 < col {
    let room = col - 3 - line.len();
    let n = 1 + rng.below(room.min(70));
    let ch = if rng.chance(1, 2) { " " } else { "x" };
    line.push_str(&ch.repeat(n));
  }
  line.push_str("\"; ");
  let (k1, k2) = (l + rng.below(9), l + rng.below(9));
  let call = format!("wrap(first,\n{}second,\n{}third)", " ".repeat(k1), " ".repeat(k2));
  let src = format!("// h\n{line}{call};\n");
  let (callee, tpl) = *rng.pick(&[("wrap", "wrap($$$ARGS)"), ("call", "call($$$ARGS)"), ("(0, w)", "(0, w)($$$ARGS)")]);
  long_line_case(&src, callee, tpl, rep);
}

fn long_line_case(src: &str, callee: &str, tpl: &str, rep: &mut Report) {
  let replay = json!({"monitor":"c07","case":"long-line","source":src,"callee":callee,"template":tpl});
  let start = src.find("wrap(first").unwrap_or(0);
  let ls = src[..start].rfind('\n').map(|i| i + 1).unwrap_or(0);
  let (col_m, l) = (start - ls, line_indent_at(src, start));
  let call = src[start..].split(';').next().unwrap_or("").to_string();
  let r = guarded(|| {
    let lang = SupportLang::JavaScript;
    let grep = lang.ast_grep(src);
    let pat = Pattern::try_new("wrap($$$ARGS)", lang).ok()?;
    let nm = grep.root().find(&pat)?;
    if nm.text() != call {
      return None;
    }
    let fix = TemplateFix::try_new(tpl, &lang).ok()?;
    Some(String::from_utf8_lossy(&fix.generate_replacement(&nm)).to_string())
  });
  rep.evaluations += 1;
  let want = format!("{callee}{}", &call[4.min(call.len())..]);
  match r {
    Ok(Some(got)) => {
      let class = if col_m <= 480 { "near" } else if col_m > 511 { "beyond" } else { "boundary" };
      rep.count(&format!("verdicts_long_line_{class}"), 1);
      if got != want {
        // the look-behind window reaches the line start from the match but not from the capture
        let straddle = col_m <= 511 && col_m + callee_len_in_source() > 511 && l > 0;
        let sig = if straddle { "C07/long-line/window-between-match-and-capture" } else { "C07/long-line/continuation-lines" };
        rep.violation(sig, &format!("match at column {col_m} of a line indented by {l}: template {tpl:?} gives {:?}, expected {:?}", clip(&got, 120), clip(&want, 120)), replay);
      }
    }
    Ok(None) => rep.count("long_line_no_match", 1),
    Err(p) => rep.violation(&format!("C07/panic/{}", p.site()), &format!("panic at {}: {}", p.location, p.message), replay),
  }
}

/// distance between the match start and the start of `$$$ARGS` in `wrap(first, ..`
fn callee_len_in_source() -> usize {
  5
}

// ------------------------------------------------------------------ convert / replace on the captured text
const LOWER: [char; 5] = ['a', 'b', 'z', 'é', 'я'];
const UPPER: [char; 5] = ['A', 'B', 'Z', 'É', 'Я'];
const DELIMS: [(char, &str); 5] = [('-', "dash"), ('.', "dot"), ('/', "slash"), (' ', "space"), ('_', "underscore")];

fn cap(w: &str) -> String {
  let mut it = w.chars();
  match it.next() {
    Some(c) => c.to_uppercase().chain(it).collect(),
    None => String::new(),
  }
}

/// documented word splitting, on characters: the chosen delimiter characters separate words; with
/// caseChange a word also ends before an upper-case letter that follows a lower-case one, and a run of
/// upper-case letters followed by a lower-case one keeps its last letter for the next word (XMLHttp -> XML Http)
fn ref_words(s: &str, delims: &[char], case_change: bool) -> Vec<String> {
  let mut words: Vec<Vec<char>> = vec![];
  let mut cur: Vec<char> = vec![];
  for c in s.chars() {
    if delims.contains(&c) {
      words.push(std::mem::take(&mut cur));
      continue;
    }
    if case_change {
      let n = cur.len();
      if n >= 1 && cur[n - 1].is_lowercase() && c.is_uppercase() {
        words.push(std::mem::take(&mut cur));
      } else if n >= 2 && cur[n - 1].is_uppercase() && cur[n - 2].is_uppercase() && c.is_lowercase() {
        let last = cur.pop().unwrap();
        words.push(std::mem::take(&mut cur));
        cur.push(last);
      }
    }
    cur.push(c);
  }
  words.push(cur);
  words.into_iter().filter(|w| !w.is_empty()).map(|w| w.into_iter().collect()).collect()
}

fn ref_convert(s: &str, case: &str, delims: &[char], case_change: bool) -> String {
  let words = ref_words(s, delims, case_change);
  match case {
    "lowerCase" => s.to_lowercase(),
    "upperCase" => s.to_uppercase(),
    "capitalize" => cap(s),
    "camelCase" => words.iter().enumerate().map(|(i, w)| if i == 0 { w.to_lowercase() } else { cap(w) }).collect(),
    "snakeCase" => words.iter().map(|w| w.to_lowercase()).collect::<Vec<_>>().join("_"),
    "kebabCase" => words.iter().map(|w| w.to_lowercase()).collect::<Vec<_>>().join("-"),
    _ => words.iter().map(|w| cap(w)).collect(),
  }
}

/// `convert` (string case) and `replace` (regex) computed by the real transform on a captured string
/// fragment, against an executable reading of the documentation.  Letters-only inputs (plus the five
/// delimiter characters) are compared exactly; with digits mixed in only conservation is asserted: a case
/// conversion neither loses nor invents a letter or digit.
fn check_convert(rng: &mut Rng, rep: &mut Report) {
  let lang = SupportLang::JavaScript;
  let with_digits = rng.chance(1, 4);
  let len = 1 + rng.below(10);
  let text: String = (0..len)
    .map(|_| match rng.below(10) {
      0..=3 => *rng.pick(&LOWER),
      4..=6 => *rng.pick(&UPPER),
      7 if with_digits => *rng.pick(&['1', '2']),
      7 | 8 => rng.pick(&DELIMS).0,
      _ => *rng.pick(&LOWER),
    })
    .collect();
  if text.starts_with(' ') || text.ends_with(' ') && false {
    return;
  }
  let case = *rng.pick(&["lowerCase", "upperCase", "capitalize", "camelCase", "snakeCase", "kebabCase", "pascalCase"]);
  // separatedBy: absent (all) or a subset
  let seps: Option<Vec<&str>> = if rng.chance(1, 2) {
    None
  } else {
    let mut v: Vec<&str> = DELIMS.iter().filter(|_| rng.chance(1, 2)).map(|d| d.1).collect();
    if rng.chance(1, 2) {
      v.push("caseChange");
    }
    Some(v)
  };
  let (delims, case_change): (Vec<char>, bool) = match &seps {
    None => (DELIMS.iter().map(|d| d.0).collect(), true),
    Some(v) => (DELIMS.iter().filter(|d| v.contains(&d.1)).map(|d| d.0).collect(), v.contains(&"caseChange")),
  };
  let mut conv = serde_json::Map::new();
  conv.insert("source".into(), json!("$V"));
  conv.insert("toCase".into(), json!(case));
  if let Some(v) = &seps {
    conv.insert("separatedBy".into(), json!(v));
  }
  let src = format!("x = \"{text}\";\n");
  let yaml = serde_json::to_string(&json!({"id":"t","language":"JavaScript","rule":{"kind":"string_fragment","pattern":"$V"},
    "transform":{"T":{"convert":serde_json::Value::Object(conv)}},"fix":"$T"}))
  .unwrap();
  let replay = json!({"monitor":"c07","case":"convert","source":src,"rule":yaml,"text":text,"toCase":case,"separatedBy":seps});
  let r = guarded(|| {
    let g = GlobalRules::default();
    let mut v = from_yaml_string::<SupportLang>(&yaml, &g).ok()?;
    let cfg = v.pop()?;
    let grep = lang.ast_grep(&src);
    let root = grep.root();
    let node = root.dfs().find(|n| n.kind() == "string_fragment")?;
    if node.text() != text.as_str() {
      return None;
    }
    let nm = cfg.matcher.match_node(node.clone())?;
    let got = nm.get_env().get_transformed("T").map(|b| String::from_utf8_lossy(b).to_string())?;
    Some(got)
  });
  rep.evaluations += 1;
  match r {
    Ok(Some(got)) => {
      rep.count("verdicts_convert", 1);
      let norm = |x: &str| -> String { x.chars().filter(|c| c.is_alphanumeric()).flat_map(|c| c.to_lowercase()).collect() };
      if norm(&got) != norm(&text) {
        rep.violation(&format!("C07/convert/{case}/letters-not-conserved"), &format!("convert({text:?}, {case}, separatedBy={seps:?}) gives {got:?}"), replay);
      } else if text.chars().all(|c| c.is_lowercase() || c.is_uppercase() || delims.contains(&c)) {
        // exact comparison only where the documentation fixes the result: letters and *selected* delimiters
        // (how an uncased character -- digit, unselected delimiter -- takes part in case-change splitting is unspecified)
        let want = ref_convert(&text, case, &delims, case_change);
        if got != want {
          rep.violation(&format!("C07/convert/{case}/differs"), &format!("convert({text:?}, {case}, separatedBy={seps:?}) gives {got:?}, reference {want:?}"), replay);
        }
      }
      if text.chars().any(|c| !c.is_ascii()) && text.chars().any(|c| c.is_uppercase()) {
        rep.nontrivial(hash_parts(&["convert", &text, case, &format!("{seps:?}")]));
      }
    }
    Ok(None) => {}
    Err(p) => rep.violation(&format!("C07/panic/{}", p.site()), &format!("convert({text:?}, {case}): panic at {}: {}", p.location, p.message), replay),
  }
}

/// `substring` (Python slice on characters) and `replace` (regex with capture groups) on a captured string
/// fragment with non-ASCII text
fn check_substring_replace(rng: &mut Rng, rep: &mut Report) {
  let lang = SupportLang::JavaScript;
  let len = rng.below(9);
  let text: String = (0..len).map(|_| *rng.pick(&['a', 'b', 'é', 'я', '世', '🦀', '_', ' ', 'Z'])).collect();
  if text.is_empty() {
    return;
  }
  let is_sub = rng.chance(1, 2);
  let (s, e) = (if rng.chance(1, 4) { None } else { Some(rng.range(-10, 10)) }, if rng.chance(1, 4) { None } else { Some(rng.range(-10, 10)) });
  let (re, by) = *rng.pick(&[("[ab]", "X"), ("(.)\\1", "<$1>"), ("^.", ""), ("é+", "e"), ("\\s+", "_"), ("(?P<w>[a-z]+)", "[$w]"), ("$", "!"), ("", "-")]);
  let t = if is_sub {
    let mut m = serde_json::Map::new();
    m.insert("source".into(), json!("$V"));
    if let Some(s) = s {
      m.insert("startChar".into(), json!(s));
    }
    if let Some(e) = e {
      m.insert("endChar".into(), json!(e));
    }
    json!({"substring": serde_json::Value::Object(m)})
  } else {
    json!({"replace": {"source": "$V", "replace": re, "by": by}})
  };
  let src = format!("x = \"{text}\";\n");
  let yaml = serde_json::to_string(&json!({"id":"t","language":"JavaScript","rule":{"kind":"string_fragment","pattern":"$V"},"transform":{"T":t},"fix":"$T"})).unwrap();
  let replay = json!({"monitor":"c07","case":"convert","source":src,"rule":yaml,"text":text});
  let r = guarded(|| {
    let g = GlobalRules::default();
    let mut v = from_yaml_string::<SupportLang>(&yaml, &g).ok()?;
    let cfg = v.pop()?;
    let grep = lang.ast_grep(&src);
    let root = grep.root();
    let node = root.dfs().find(|n| n.kind() == "string_fragment")?;
    if node.text() != text.as_str() {
      return None;
    }
    let nm = cfg.matcher.match_node(node.clone())?;
    let got = nm.get_env().get_transformed("T").map(|b| String::from_utf8_lossy(b).to_string());
    Some(got)
  });
  rep.evaluations += 1;
  match r {
    Ok(Some(got)) => {
      let want = if is_sub {
        let chars: Vec<char> = text.chars().collect();
        let n = chars.len() as i64;
        let norm = |v: Option<i64>, default: i64| match v {
          None => default,
          Some(v) if v < 0 => (n + v).max(0),
          Some(v) => v.min(n),
        };
        let (a, b) = (norm(s, 0), norm(e, n));
        if a >= b { String::new() } else { chars[a as usize..b as usize].iter().collect() }
      } else {
        regex::Regex::new(&re.replace("\\\\", "\\")).map(|r| r.replace_all(&text, by).to_string()).unwrap_or_default()
      };
      rep.count(if is_sub { "verdicts_substring" } else { "verdicts_replace" }, 1);
      if got.clone().unwrap_or_default() != want {
        let what = if is_sub { format!("substring({text:?}, {s:?}, {e:?})") } else { format!("replace({text:?}, {re:?}, {by:?})") };
        rep.violation(if is_sub { "C07/transform/substring" } else { "C07/transform/replace" }, &format!("{what} gives {got:?}, reference {want:?}"), replay);
      }
      if !text.is_ascii() {
        rep.nontrivial(hash_parts(&["subrep", &text, &format!("{is_sub}{s:?}{e:?}{re}")]));
      }
    }
    Ok(None) => {}
    Err(p) => rep.violation(&format!("C07/panic/{}", p.site()), &format!("transform on {text:?}: panic at {}: {}", p.location, p.message), replay),
  }
}

pub fn run_source(lang: SupportLang, fname: &str, src: &str, n_cases: usize, rng: &mut Rng, rep: &mut Report) {
  let lname = corpus::lang_name(lang);
  let grep = lang.ast_grep(src);
  let root = grep.root();
  let mut sites = gen::cut_sites(&root, 500);
  if sites.is_empty() {
    return;
  }
  rng.shuffle(&mut sites);
  // prefer multi-line nodes for half of the cases
  let multi: Vec<N> = sites.iter().filter(|n| n.text().contains('\n')).cloned().collect();
  let mut done = 0;
  let mut tries = 0;
  while done < n_cases && tries < n_cases * 5 {
    tries += 1;
    let node = if !multi.is_empty() && rng.chance(1, 2) { rng.pick(&multi).clone() } else { rng.pick(&sites).clone() };
    let cut = match rng.below(5) {
      4 => gen::cut_trailing(&node, rng),
      k => gen::cut_singles(&node, 1 + k % 3, rng),
    };
    let Some(cut) = cut else { continue };
    let Ok(pat) = Pattern::try_new(&cut.pattern, lang) else { continue };
    if pat.match_node(node.clone()).is_none() {
      continue;
    }
    done += 1;
    let vars: Vec<(String, bool)> = cut.singles.iter().map(|(n, _)| (n.clone(), false)).chain(cut.multi.iter().map(|(n, _)| (n.clone(), true))).collect();
    let nr = (node.range().start, node.range().end);
    let kind = node.kind().to_string();
    // random templates
    for _ in 0..3 {
      let tpl = gen_template(&vars, rng);
      rep.evaluations += 1;
      if check_case(lang, &lname, fname, src, &cut.pattern, nr, &kind, &tpl, false, rep) {
        rep.nontrivial(hash_parts(&[fname, src, &cut.pattern, &tpl]));
      }
    }
    // identity: the pattern text, de-indented by the match line's indentation, as fix
    let m = line_indent_at(src, nr.0);
    if node.text().contains('$') {
      // statement: "code free of the `$` sigil"; source text like `$Xsed` is itself a variable in a template
      rep.count("identity_skipped_sigil_in_source", 1);
    } else if !crate::mon::c02::premise_holds(&pat, &node, &cut) {
      rep.count("identity_skipped_premise", 1);
    } else if let Some(tpl) = deindent_text(&cut.pattern, m) {
      rep.evaluations += 1;
      rep.count("identity_cases", 1);
      if check_case(lang, &lname, fname, src, &cut.pattern, nr, &kind, &tpl, true, rep) {
        rep.nontrivial(hash_parts(&[fname, src, &cut.pattern, "identity"]));
      }
    }
    if rng.chance(1, 6) {
      if let Some(leaf) = node.dfs().find(|d| d.is_named() && d.is_leaf()) {
        check_transformed(lang, &lname, fname, src, &leaf, rng, rep);
      }
    }
  }
}

pub fn run(ctx: &Ctx, rep: &mut Report) {
  if let Some(r) = &ctx.replay {
    rep.evaluations += 1;
    if r["case"] == "long-line" {
      long_line_case(r["source"].as_str().unwrap(), r["callee"].as_str().unwrap(), r["template"].as_str().unwrap(), rep);
      return;
    }
    if r["case"] == "transformed" || r["case"] == "convert" {
      rep.notes.push("transformed cases are replayed through the run that produced them".into());
      return;
    }
    let lname = r["lang"].as_str().unwrap();
    let lang = crate::util::lang_of(lname);
    if false {
      rep.notes.push("transformed cases are replayed through the run that produced them".into());
      return;
    }
    check_case(
      lang,
      lname,
      "replay",
      r["source"].as_str().unwrap(),
      r["pattern"].as_str().unwrap(),
      (r["node"][0].as_u64().unwrap() as usize, r["node"][1].as_u64().unwrap() as usize),
      r["kind"].as_str().unwrap(),
      r["template"].as_str().unwrap(),
      r["identity"].as_bool().unwrap_or(false),
      rep,
    );
    return;
  }
  let mut rng = ctx.rng("c07");
  for _ in 0..(if ctx.thorough { 60000 } else { 1500 }) {
    check_convert(&mut rng, rep);
    check_substring_replace(&mut rng, rep);
    check_transformed_multi(&mut rng, rep);
    check_long_line(&mut rng, rep);
  }
  let files: Vec<SrcFile> = corpus::shard(&corpus::load_all(), ctx.shard, ctx.nshards);
  let n_cases = if ctx.thorough { 400 } else { 14 };
  for f in &files {
    if f.text.contains('\t') {
      rep.count("files_with_tabs", 1);
    }
    let text = excerpt(&f.text, if ctx.thorough { 8000 } else { 4000 });
    for k in [0usize, 3, 8] {
      // re-indenting is only meaning-preserving for languages that are not indentation sensitive;
      // for the others the re-indented text is simply another source (possibly with errors)
      let src = reindent_source(&text, k);
      run_source(f.lang, &format!("{}+{k}", f.name), &src, n_cases / if k == 0 { 1 } else { 2 } + 1, &mut rng, rep);
    }
    rep.count(&format!("lang.{}", corpus::lang_name(f.lang)), 1);
  }
  rep.sample(json!({"template": "foo($V0,\n    $$$V)é$x $UNBOUND", "clauses": ["verbatim substitution", "relative indentation shift", "identity rewrite"]}));
}
