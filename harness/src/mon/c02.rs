//! C02 — code with holes matches the code it was cut from, binding each hole exactly.
use crate::corpus::{self, SrcFile};
use crate::gen::{self, Cut};
use crate::refsem::align::{shape, Bound, ALL_S};
use crate::rng::{hash_parts, Rng};
use crate::util::{clip, guarded, N};
use crate::{Ctx, Report};
use ast_grep_core::matcher::MatcherExt;
use ast_grep_core::{Language, Pattern};
use ast_grep_language::SupportLang;
use serde_json::json;

fn find_node<'a>(root: &N<'a>, range: &std::ops::Range<usize>, kind: &str) -> Option<N<'a>> {
  root.dfs().find(|n| n.range() == *range && n.kind() == kind)
}

/// C02's premise: the pattern has the same tree shape as the node, holes exactly over the abstracted ranges
pub fn premise_holds(pat: &Pattern<SupportLang>, node: &N, cut: &Cut) -> bool {
  let mut bounds = vec![];
  if !shape(&pat.node, node, &mut bounds) {
    return false;
  }
  let mut singles: Vec<(String, std::ops::Range<usize>)> = vec![];
  let mut multi = None;
  for b in bounds {
    match b {
      Bound::Single { name, range, named } => {
        if !named {
          return false;
        }
        singles.push((name, range))
      }
      Bound::Multi { name, ranges } => multi = Some((name, ranges)),
    }
  }
  singles.sort_by_key(|x| x.1.start);
  singles == cut.singles && multi == cut.multi
}

/// returns (premise held, non-trivial)
pub fn check_cut(lang: SupportLang, lname: &str, fname: &str, src: &str, node: &N, cut: &Cut, rep: &mut Report) -> (bool, bool) {
  let replay = json!({"monitor":"c02","lang":lname,"file":fname,"source":src,"pattern":cut.pattern,
    "node":[cut.node.start,cut.node.end],"kind":cut.node_kind,
    "singles":cut.singles.iter().map(|(n,r)| json!([n,r.start,r.end])).collect::<Vec<_>>(),
    "multi":cut.multi.as_ref().map(|(n,rs)| json!([n, rs.iter().map(|r| json!([r.start,r.end])).collect::<Vec<_>>()]))});
  let mode = if cut.multi.is_some() { "ellipsis" } else if cut.singles.is_empty() { "self" } else { "holes" };
  let r = guarded(|| {
    let Ok(pat) = Pattern::try_new(&cut.pattern, lang) else {
      return (false, vec![]);
    };
    // premise: same tree shape, holes exactly where sub-trees were abstracted
    let mut bounds = vec![];
    if !shape(&pat.node, node, &mut bounds) {
      return (false, vec![]);
    }
    let mut singles: Vec<(String, std::ops::Range<usize>)> = vec![];
    let mut multi = None;
    for b in bounds {
      match b {
        Bound::Single { name, range, named } => {
          if !named {
            return (false, vec![]);
          }
          singles.push((name, range))
        }
        Bound::Multi { name, ranges } => multi = Some((name, ranges)),
      }
    }
    singles.sort_by_key(|x| x.1.start);
    if singles != cut.singles || multi != cut.multi {
      return (false, vec![]);
    }
    let mut viol = vec![];
    for s in ALL_S {
      let p = pat.clone().with_strictness(s.to_impl());
      match p.match_node(node.clone()) {
        None => viol.push((format!("C02/no-match/{}/{mode}", s.name()), format!("pattern `{}` does not match the code it was cut from under {}", clip(&cut.pattern, 120), s.name()))),
        Some(nm) => {
          let env = nm.get_env();
          for (name, range) in &cut.singles {
            match env.get_match(name) {
              Some(b) if b.range() == *range => {}
              other => viol.push((format!("C02/binding/{}/single", s.name()), format!("${name} bound to {:?}, expected {:?} (pattern `{}`)", other.map(|b| b.range()), range, clip(&cut.pattern, 120)))),
            }
          }
          if let Some((name, ranges)) = &cut.multi {
            let got: Vec<_> = env.get_multiple_matches(name).iter().filter(|x| x.is_named()).map(|x| x.range()).collect();
            if &got != ranges {
              viol.push((format!("C02/binding/{}/multi", s.name()), format!("$$${name} bound to {:?}, expected {:?} (pattern `{}`)", got, ranges, clip(&cut.pattern, 120))));
            }
          }
          if nm.get_node().range() != node.range() {
            viol.push((format!("C02/matched-node/{}", s.name()), "match_node returned a different node".into()));
          }
        }
      }
    }
    (true, viol)
  });
  match r {
    Ok((premise, viol)) => {
      for (sig, what) in viol {
        rep.violation(&sig, &what, replay.clone());
      }
      let nt = premise && (!cut.singles.is_empty() || cut.multi.is_some() || node.children().len() >= 3);
      (premise, nt)
    }
    Err(p) => {
      rep.violation(&format!("C02/panic/{}", p.site()), &format!("panic at {}: {}", p.location, p.message), replay);
      (false, false)
    }
  }
}

pub fn run_file(f: &SrcFile, per_file: usize, rng: &mut Rng, rep: &mut Report) {
  let lname = corpus::lang_name(f.lang);
  let grep = f.lang.ast_grep(&f.text);
  let root = grep.root();
  let mut sites = gen::cut_sites(&root, 400);
  if sites.is_empty() {
    return;
  }
  rng.shuffle(&mut sites);
  let mut done = 0;
  let mut idx = 0;
  while done < per_file && idx < sites.len() * 3 {
    let node = &sites[idx % sites.len()];
    idx += 1;
    let cut = match rng.below(6) {
      0 => gen::cut_singles(node, 0, rng),
      5 => gen::cut_trailing(node, rng),
      k => gen::cut_singles(node, k, rng),
    };
    let Some(cut) = cut else { continue };
    done += 1;
    rep.evaluations += 1;
    let (premise, nt) = check_cut(f.lang, &lname, &f.name, &f.text, node, &cut, rep);
    if premise {
      rep.count("premise_held", 1);
      rep.count(&format!("premise_held.{lname}"), 1);
      if nt {
        rep.nontrivial(hash_parts(&[&f.name, &cut.pattern, &format!("{:?}", cut.node)]));
      }
      if cut.multi.is_some() {
        rep.count("premise_held_ellipsis", 1);
      }
      if rep.samples.len() < 6 && !cut.singles.is_empty() {
        rep.sample(json!({"lang": lname, "pattern": clip(&cut.pattern, 160), "holes": cut.singles.len(), "node_kind": cut.node_kind}));
      }
    } else {
      rep.count("skipped_premise", 1);
    }
  }
}

pub fn run(ctx: &Ctx, rep: &mut Report) {
  if let Some(r) = &ctx.replay {
    let lname = r["lang"].as_str().unwrap();
    let lang = crate::util::lang_of(lname);
    let src = r["source"].as_str().unwrap();
    let grep = lang.ast_grep(src);
    let range = r["node"][0].as_u64().unwrap() as usize..r["node"][1].as_u64().unwrap() as usize;
    let Some(node) = find_node(&grep.root(), &range, r["kind"].as_str().unwrap()) else {
      rep.notes.push("replay: node not found".into());
      return;
    };
    let cut = Cut {
      pattern: r["pattern"].as_str().unwrap().to_string(),
      node: range,
      node_kind: r["kind"].as_str().unwrap().to_string(),
      singles: r["singles"].as_array().unwrap().iter().map(|x| (x[0].as_str().unwrap().to_string(), x[1].as_u64().unwrap() as usize..x[2].as_u64().unwrap() as usize)).collect(),
      multi: r["multi"].as_array().map(|m| (m[0].as_str().unwrap().to_string(), m[1].as_array().unwrap().iter().map(|x| x[0].as_u64().unwrap() as usize..x[1].as_u64().unwrap() as usize).collect())),
    };
    rep.evaluations += 1;
    check_cut(lang, lname, "replay", src, &node, &cut, rep);
    return;
  }
  let mut rng = ctx.rng("c02");
  let files = corpus::shard(&corpus::load_all(), ctx.shard, ctx.nshards);
  let per_file = if ctx.thorough { 2500 } else { 1200 };
  for f in &files {
    run_file(f, per_file, &mut rng, rep);
  }
}
