//! C02 — code with holes matches the code it was cut from, binding each hole exactly.
use crate::corpus::{self, SrcFile};
use crate::gen::{self, Cut};
use crate::refsem::align::{shape, Bound, ALL_S};
use crate::rng::{hash_parts, Rng};
use crate::util::{clip, guarded, N};
use crate::{Ctx, Report};
use ast_grep_core::matcher::MatcherExt;
use ast_grep_core::{Language, Pattern};
use ast_grep_language::SupportLang;
use serde_json::json;

fn find_node<'a>(root: &N<'a>, range: &std::ops::Range<usize>, kind: &str) -> Option<N<'a>> {
  root.dfs().find(|n| n.range() == *range && n.kind() == kind)
}

/// C02's premise: the pattern has the same tree shape as the node, holes exactly over the abstracted ranges
pub fn premise_holds(pat: &Pattern<SupportLang>, node: &N, cut: &Cut) -> bool {
  let mut bounds = vec![];
  if !shape(&pat.node, node, &mut bounds) {
    return false;
  }
  let mut singles: Vec<(String, std::ops::Range<usize>)> = vec![];
  let mut multi = None;
  for b in bounds {
    match b {
      Bound::Single { name, range, named } => {
        if !named {
          return false;
        }
        singles.push((name, range))
      }
      Bound::Multi { name, ranges } => multi = Some((name, ranges)),
    }
  }
  singles.sort_by_key(|x| x.1.start);
  singles == cut.singles && multi == cut.multi
}

/// returns (premise held, non-trivial)
pub fn check_cut(lang: SupportLang, lname: &str, fname: &str, src: &str, node: &N, cut: &Cut, rep: &mut Report) -> (bool, bool) {
  let replay = json!({"monitor":"c02","lang":lname,"file":fname,"source":src,"pattern":cut.pattern,
    "node":[cut.node.start,cut.node.end],"kind":cut.node_kind,
    "singles":cut.singles.iter().map(|(n,r)| json!([n,r.start,r.end])).collect::<Vec<_>>(),
    "multi":cut.multi.as_ref().map(|(n,rs)| json!([n, rs.iter().map(|r| json!([r.start,r.end])).collect::<Vec<_>>()]))});
  let mode = if cut.multi.is_some() { "ellipsis" } else if cut.singles.is_empty() { "self" } else { "holes" };
  let r = guarded(|| {
    let Ok(pat) = Pattern::try_new(&cut.pattern, lang) else {
      return (false, vec![]);
    };
    // premise: same tree shape, holes exactly where sub-trees were abstracted
    let mut bounds = vec![];
    if !shape(&pat.node, node, &mut bounds) {
      return (false, vec![]);
    }
    let mut singles: Vec<(String, std::ops::Range<usize>)> = vec![];
    let mut multi = None;
    for b in bounds {
      match b {
        Bound::Single { name, range, named } => {
          if !named {
            return (false, vec![]);
          }
          singles.push((name, range))
        }
        Bound::Multi { name, ranges } => multi = Some((name, ranges)),
      }
    }
    singles.sort_by_key(|x| x.1.start);
    if singles != cut.singles || multi != cut.multi {
      return (false, vec![]);
    }
    let mut viol = vec![];
    for s in ALL_S {
      let p = pat.clone().with_strictness(s.to_impl());
      match p.match_node(node.clone()) {
        None => viol.push((format!("C02/no-match/{}/{mode}", s.name()), format!("pattern `{}` does not match the code it was cut from under {}", clip(&cut.pattern, 120), s.name()))),
        Some(nm) => {
          let env = nm.get_env();
          for (name, range) in &cut.singles {
            match env.get_match(name) {
              Some(b) if b.range() == *range => {}
              other => viol.push((format!("C02/binding/{}/single", s.name()), format!("${name} bound to {:?}, expected {:?} (pattern `{}`)", other.map(|b| b.range()), range, clip(&cut.pattern, 120)))),
            }
          }
          if let Some((name, ranges)) = &cut.multi {
            let got: Vec<_> = env.get_multiple_matches(name).iter().filter(|x| x.is_named()).map(|x| x.range()).collect();
            if &got != ranges {
              viol.push((format!("C02/binding/{}/multi", s.name()), format!("$$${name} bound to {:?}, expected {:?} (pattern `{}`)", got, ranges, clip(&cut.pattern, 120))));
            }
          }
          if nm.get_node().range() != node.range() {
            viol.push((format!("C02/matched-node/{}", s.name()), "match_node returned a different node".into()));
          }
        }
      }
    }
    (true, viol)
  });
  match r {
    Ok((premise, viol)) => {
      for (sig, what) in viol {
        rep.violation(&sig, &what, replay.clone());
      }
      let nt = premise && (!cut.singles.is_empty() || cut.multi.is_some() || node.children().len() >= 3);
      (premise, nt)
    }
    Err(p) => {
      rep.violation(&format!("C02/panic/{}", p.site()), &format!("panic at {}: {}", p.location, p.message), replay);
      (false, false)
    }
  }
}

/// The same cut used as the CONTEXT of a pattern object with a `selector`: the sub-pattern selected inside the
/// context must match the corresponding sub-node of the originating code and bind the holes inside it exactly.
/// Premise (checked): the plain cut kept the tree shape, and the first node of the selector kind in the parsed
/// context is the image of the chosen sub-node (same text after mapping the holes).
pub fn check_selector(lang: SupportLang, lname: &str, fname: &str, src: &str, node: &N, cut: &Cut, rng: &mut Rng, rep: &mut Report) {
  let inside_hole = |r: &std::ops::Range<usize>| {
    cut.singles.iter().any(|(_, h)| h.start <= r.start && r.end <= h.end)
      || cut.multi.as_ref().map(|(_, rs)| !rs.is_empty() && rs[0].start <= r.start && r.end <= rs[rs.len() - 1].end).unwrap_or(false)
  };
  let mut seen = std::collections::HashSet::new();
  let mut cands: Vec<N> = vec![];
  for d in node.dfs().skip(1) {
    let first_of_kind = seen.insert(d.kind_id());
    if first_of_kind && d.is_named() && d.children().len() > 0 && !inside_hole(&d.range()) && d.kind_id() != node.kind_id() {
      cands.push(d);
    }
  }
  if cands.is_empty() {
    return;
  }
  let sel = rng.pick(&cands).clone();
  // text of the selected sub-node as it is spelled in the pattern
  let mut holes: Vec<(std::ops::Range<usize>, String)> = cut.singles.iter().map(|(n, r)| (r.clone(), format!("${n}"))).collect();
  if let Some((n, rs)) = &cut.multi {
    if !rs.is_empty() {
      holes.push((rs[0].start..rs[rs.len() - 1].end, format!("$$${n}")));
    }
  }
  holes.retain(|(r, _)| sel.range().start <= r.start && r.end <= sel.range().end);
  holes.sort_by_key(|(r, _)| r.start);
  let mut expected = String::new();
  let mut at = sel.range().start;
  for (r, v) in &holes {
    expected.push_str(&src[at..r.start]);
    expected.push_str(v);
    at = r.end;
  }
  expected.push_str(&src[at..sel.range().end]);
  let selector = sel.kind().to_string();
  let replay = json!({"monitor":"c02","mode":"selector","lang":lname,"file":fname,"source":src,"pattern":cut.pattern,"selector":selector,
    "node":[sel.range().start,sel.range().end],"kind":selector,
    "singles":holes.iter().filter(|(_, v)| !v.starts_with("$$$")).map(|(r, v)| json!([v.trim_start_matches('$'), r.start, r.end])).collect::<Vec<_>>()});
  let r = guarded(|| {
    let processed = lang.pre_process_pattern(&cut.pattern);
    let pg = lang.ast_grep(&*processed);
    let first = pg.root().dfs().find(|x| x.kind() == selector.as_str())?;
    let e = lang.expando_char();
    if first.text().replace(e, "$") != expected {
      return None;
    }
    let pat = Pattern::contextual(&cut.pattern, &selector, lang).ok()?;
    let mut viol = vec![];
    for s in ALL_S {
      let p = pat.clone().with_strictness(s.to_impl());
      match p.match_node(sel.clone()) {
        None => viol.push((format!("C02/selector/no-match/{}", s.name()), format!("context `{}` with selector {selector} does not match the sub-node `{}` it was cut from under {}", clip(&cut.pattern, 100), clip(&sel.text(), 60), s.name()))),
        Some(nm) => {
          for (r, v) in &holes {
            if v.starts_with("$$$") {
              continue;
            }
            let name = v.trim_start_matches('$');
            match nm.get_env().get_match(name) {
              Some(b) if b.range() == *r => {}
              other => viol.push((format!("C02/selector/binding/{}", s.name()), format!("${name} bound to {:?}, expected {:?} (context `{}`, selector {selector})", other.map(|b| b.range()), r, clip(&cut.pattern, 100)))),
            }
          }
        }
      }
    }
    Some(viol)
  });
  match r {
    Ok(Some(viol)) => {
      rep.count("selector_cases", 1);
      rep.count(&format!("selector_cases.{lname}"), 1);
      for (sig, what) in viol {
        rep.violation(&sig, &what, replay.clone());
      }
    }
    Ok(None) => rep.count("selector_premise_not_met", 1),
    Err(p) => rep.violation(&format!("C02/panic/{}", p.site()), &format!("selector: panic at {}: {}", p.location, p.message), replay),
  }
}

pub fn run_file(f: &SrcFile, per_file: usize, rng: &mut Rng, rep: &mut Report) {
  let lname = corpus::lang_name(f.lang);
  let grep = f.lang.ast_grep(&f.text);
  let root = grep.root();
  let mut sites = gen::cut_sites(&root, 400);
  if sites.is_empty() {
    return;
  }
  rng.shuffle(&mut sites);
  let mut done = 0;
  let mut idx = 0;
  while done < per_file && idx < sites.len() * 3 {
    let node = &sites[idx % sites.len()];
    idx += 1;
    let cut = match rng.below(6) {
      0 => gen::cut_singles(node, 0, rng),
      5 => gen::cut_trailing(node, rng),
      k => gen::cut_singles(node, k, rng),
    };
    let Some(cut) = cut else { continue };
    done += 1;
    rep.evaluations += 1;
    let (premise, nt) = check_cut(f.lang, &lname, &f.name, &f.text, node, &cut, rep);
    if premise {
      if rng.chance(1, 3) {
        check_selector(f.lang, &lname, &f.name, &f.text, node, &cut, rng, rep);
      }
      rep.count("premise_held", 1);
      rep.count(&format!("premise_held.{lname}"), 1);
      if nt {
        rep.nontrivial(hash_parts(&[&f.name, &cut.pattern, &format!("{:?}", cut.node)]));
      }
      if cut.multi.is_some() {
        rep.count("premise_held_ellipsis", 1);
      }
      if rep.samples.len() < 6 && !cut.singles.is_empty() {
        rep.sample(json!({"lang": lname, "pattern": clip(&cut.pattern, 160), "holes": cut.singles.len(), "node_kind": cut.node_kind}));
      }
    } else {
      rep.count("skipped_premise", 1);
    }
  }
}

pub fn run(ctx: &Ctx, rep: &mut Report) {
  if let Some(r) = &ctx.replay {
    let lname = r["lang"].as_str().unwrap();
    let lang = crate::util::lang_of(lname);
    let src = r["source"].as_str().unwrap();
    let grep = lang.ast_grep(src);
    let range = r["node"][0].as_u64().unwrap() as usize..r["node"][1].as_u64().unwrap() as usize;
    let Some(node) = find_node(&grep.root(), &range, r["kind"].as_str().unwrap()) else {
      rep.notes.push("replay: node not found".into());
      return;
    };
    if r["mode"].as_str() == Some("selector") {
      rep.evaluations += 1;
      let Ok(pat) = Pattern::contextual(r["pattern"].as_str().unwrap(), r["selector"].as_str().unwrap(), lang) else { return };
      for s in ALL_S {
        let p = pat.clone().with_strictness(s.to_impl());
        match p.match_node(node.clone()) {
          None => rep.violation(&format!("C02/selector/no-match/{}", s.name()), "context with selector does not match the sub-node it was cut from", r.clone()),
          Some(nm) => {
            for x in r["singles"].as_array().unwrap() {
              let (name, a, b) = (x[0].as_str().unwrap(), x[1].as_u64().unwrap() as usize, x[2].as_u64().unwrap() as usize);
              if nm.get_env().get_match(name).map(|n| n.range()) != Some(a..b) {
                rep.violation(&format!("C02/selector/binding/{}", s.name()), &format!("${name} not bound to {a}..{b}"), r.clone());
              }
            }
          }
        }
      }
      return;
    }
    let cut = Cut {
      pattern: r["pattern"].as_str().unwrap().to_string(),
      node: range,
      node_kind: r["kind"].as_str().unwrap().to_string(),
      singles: r["singles"].as_array().unwrap().iter().map(|x| (x[0].as_str().unwrap().to_string(), x[1].as_u64().unwrap() as usize..x[2].as_u64().unwrap() as usize)).collect(),
      multi: r["multi"].as_array().map(|m| (m[0].as_str().unwrap().to_string(), m[1].as_array().unwrap().iter().map(|x| x[0].as_u64().unwrap() as usize..x[1].as_u64().unwrap() as usize).collect())),
    };
    rep.evaluations += 1;
    check_cut(lang, lname, "replay", src, &node, &cut, rep);
    return;
  }
  let mut rng = ctx.rng("c02");
  let files = corpus::shard(&corpus::load_all(), ctx.shard, ctx.nshards);
  let per_file = if ctx.thorough { 2500 } else { 1200 };
  for f in &files {
    run_file(f, per_file, &mut rng, rep);
  }
}
