//! C11 — no YAML makes ast-grep crash (library part; the CLI part is drivers/c11.py).
//! Every case is addressed by an index, so a dying batch (abort, stack overflow, CPU limit) can be
//! bisected down to one input by the driver: `vmon c11 from=<a> to=<b>` / `vmon c11 dump=<i>`.
use crate::rng::{hash_str, Rng};
use crate::util::{clip, guarded};
use crate::{Ctx, Report};
use ast_grep_config::{from_yaml_string, CombinedScan, DeserializeEnv, GlobalRules, RuleConfig};
use ast_grep_core::Language;
use ast_grep_language::SupportLang;
use serde_json::{json, Map, Value};

const LANGS: &[(&str, &[&str])] = &[
  ("JavaScript", &["foo(abc, 12);\nlet x = [1, 2, 3];\nfunction f(a) { return a + 1 }\n", "console.log('é🦀')\n", "",
    // hostile texts for accepted rules: mixed-case non-ASCII identifiers, CRLF, tabs, astral characters, deep nesting
    "foo(cafÉ, aÉÈ_b);\r\nlet ÀÉcole = [naïveCafÉ, 'ÀÉ', `t${x}É`];\r\n\tfoo(ÉÉa, 1)\n", "foo(((((((((((((((1))))))))))))))), '𝒳𝒴', \"\\u{1F980}\");\nfoo(a,\n    b);\n"]),
  ("Python", &["def f(a):\n    return foo(a, 12)\n\nprint(f(1))\n", "x = [1, 2]\n", "\n", "foo(cafÉ, aÉÈ_b)\r\nÀÉcole = [naïveCafÉ, 'ÀÉ']\n"]),
  ("Rust", &["fn m() { foo(abc, 12); let v = vec![1, 2]; }\n", "struct A;\n", "fn", "fn m() { foo(cafÉ, aÉÈ_b); let ÀÉcole = \"ÀÉ\"; }\r\n"]),
  ("Go", &["package m\nfunc m() { foo(abc, 12) }\n", "package x\n"]),
  ("Html", &["<div class=\"a\"><p>hi</p><script>foo(1)</script></div>\n", "<a>"]),
  ("Css", &["a { color: red; margin: 1px 2px }\n", ".x{}"]),
  ("Yaml", &["a: 1\nb: [1, 2]\n", "- x\n"]),
  ("C", &["void m() { foo(abc, 12); }\n", "int x;\n"]),
];

const KINDS: &[&str] = &["identifier", "number", "call_expression", "arguments", "string", "expression_statement", "comment", "program", "integer", "ERROR", "", "not_a_kind", "function_item", "block", "é"];
const KINDS_OK: usize = 8;
const PATTERNS: &[&str] = &[
  "foo($A, $B)", "$A", "foo($$$ARGS)", "foo($$$A)", "$A + $A", "let x = $V", "if ($C) { $$$B }", "$A.$B($$$C)", "$F($A)", "[$$$ARGS]", "$A = $B",
  "$$$", "$$$ARGS", "", " ", "$", "$$", "$$$$", "$1", "$_", "f(", ")", "{", "é🦀", "$A;$B", "\n", "\t", "foo($A",
  "class $N { $$$M }", "def $F($$$P): $$$B", "a\u{0}b", "$ÀB", "$A$B", "$$$A$$$B", "<$T>$$$C</$T>", "- $A",
];
const PATTERNS_OK: usize = 11;
const REGEXES: &[&str] = &["foo", "^[a-z]+$", "\\d+", "(?i)ABC", "^.{0,3}$", "a|b", "", "(", "[a-", "\\", "a{1000000}", "(a*)*b", "\\p{Greek}", "(?P<n>x)", "a|", "x{2,1}", ".*.*.*.*.*=", "(?x) a b"];
const REGEXES_OK: usize = 6;
const NTH_OK: usize = 3;
const NTH: &[&str] = &["2n+1", "-n+3", "n", "odd", "even", "", "-n-2147483647", "99999999999n", "2147483647n+2147483647", "n n", "1 2", "+", "-", "n+", "3n-", "+-1", "--n", "nn", "1n1", "２n", "n+1n", " 5 ", "-0n-0"];
const VARS: &[&str] = &["$A", "$B", "$$$ARGS", "$T0", "$A", "$B", "$$$A", "A", "", "$", "$$", "$$$", "$a", "$1", "$_", "$NOPE", "$RW", "$A ", " $A", "$$A", "$ÀB", "$$$_"];
const VARS_OK: usize = 6;
const CASES: &[&str] = &["upperCase", "lowerCase", "camelCase", "snakeCase", "kebabCase", "pascalCase", "capitalize", "nope", ""];
const STRS: &[&str] = &["", "x", "é🦀", "$A", "a\nb", "   ", "null", "~", "true", "1e400", "0x10", "{}", "[]", "*a", "&a b", "!!binary x", "a: b", "- x", "\\", "\"", "'", "日本語"];

const LANG_KINDS: &[(&str, &[&str])] = &[
  ("JavaScript", &["identifier", "number", "call_expression", "arguments", "string", "expression_statement", "comment", "program"]),
  ("Python", &["identifier", "integer", "call", "argument_list", "string", "expression_statement", "comment", "module"]),
  ("Rust", &["identifier", "integer_literal", "call_expression", "arguments", "function_item", "block", "line_comment", "source_file"]),
  ("Go", &["identifier", "int_literal", "call_expression", "argument_list", "function_declaration", "block", "comment", "source_file"]),
  ("Html", &["element", "start_tag", "tag_name", "attribute", "text", "script_element", "attribute_value", "document"]),
  ("Css", &["declaration", "property_name", "integer_value", "rule_set", "block", "tag_name", "plain_value", "stylesheet"]),
  ("Yaml", &["block_mapping_pair", "flow_sequence", "plain_scalar", "integer_scalar", "block_node", "flow_node", "document", "stream"]),
  ("C", &["identifier", "number_literal", "call_expression", "argument_list", "function_definition", "compound_statement", "declaration", "translation_unit"]),
];
thread_local! {
  static CUR_LANG: std::cell::Cell<usize> = const { std::cell::Cell::new(0) };
  /// percentage of "wild" choices; 0 while the valid skeleton of a schema document is generated
  static WILD: std::cell::Cell<u64> = const { std::cell::Cell::new(12) };
}
fn wild(rng: &mut Rng) -> bool {
  let w = WILD.with(|c| c.get());
  w > 0 && rng.chance(w, 100)
}
fn kind(rng: &mut Rng) -> &'static str {
  if !wild(rng) {
    let ks = LANG_KINDS[CUR_LANG.with(|c| c.get())].1;
    ks[rng.below(ks.len())]
  } else {
    KINDS[rng.below(KINDS.len())]
  }
}

/// mostly-valid choice: the first `ok` entries of a pool are valid values
fn pk<'a>(rng: &mut Rng, pool: &'a [&'a str], ok: usize) -> &'a str {
  if !wild(rng) {
    pool[rng.below(ok)]
  } else {
    pool[rng.below(pool.len())]
  }
}

fn small(rng: &mut Rng) -> Value {
  if !wild(rng) {
    json!(rng.below(4))
  } else {
    num(rng)
  }
}

fn num(rng: &mut Rng) -> Value {
  match rng.below(12) {
    0 => json!(0),
    1 => json!(1),
    2 => json!(-1),
    3 => json!(u64::MAX),
    4 => json!(i64::MIN),
    5 => json!(1.5),
    6 => json!(2147483647),
    7 => json!(-2147483648i64),
    8 => json!(4294967296u64),
    9 => json!(1e308),
    10 => json!(rng.range(-5, 40)),
    _ => json!(rng.below(5)),
  }
}

fn junk(rng: &mut Rng) -> Value {
  match rng.below(9) {
    0 => Value::Null,
    1 => json!(rng.chance(1, 2)),
    2 => num(rng),
    3 => json!(rng.pick(STRS)),
    4 => json!([]),
    5 => json!({}),
    6 => json!([rng.pick(STRS), num(rng)]),
    7 => json!({"x": rng.pick(STRS)}),
    _ => json!(rng.pick(PATTERNS)),
  }
}

fn stop_by(rng: &mut Rng, depth: usize) -> Value {
  match rng.below(16) {
    0..=4 => json!("neighbor"),
    5..=9 => json!("end"),
    10 if wild(rng) => json!(rng.pick(STRS)),
    11 if wild(rng) => junk(rng),
    10 | 11 => json!("end"),
    _ => rule(rng, depth + 2),
  }
}

fn relation(rng: &mut Rng, depth: usize) -> Value {
  let mut r = match rule(rng, depth + 1) {
    Value::Object(m) => m,
    _ => Map::new(),
  };
  if rng.chance(2, 3) {
    r.insert("stopBy".into(), stop_by(rng, depth));
  }
  if wild(rng) {
    r.insert("field".into(), json!(pk(rng, &["name", "body", "arguments", "function", "left", "nope", ""], 5)));
  }
  Value::Object(r)
}

fn nth(rng: &mut Rng, depth: usize) -> Value {
  match rng.below(12) {
    0 | 1 => small(rng),
    2..=5 => json!(pk(rng, NTH, NTH_OK)),
    6 if wild(rng) => junk(rng),
    6 => json!(1),
    _ => {
      let mut m = Map::new();
      m.insert("position".into(), if rng.chance(1, 2) { json!(pk(rng, NTH, NTH_OK)) } else { small(rng) });
      if rng.chance(1, 2) {
        m.insert("reverse".into(), if !wild(rng) { json!(rng.chance(1, 2)) } else { junk(rng) });
      }
      if rng.chance(1, 2) {
        m.insert("ofRule".into(), rule(rng, depth + 1));
      }
      Value::Object(m)
    }
  }
}

const UTIL_IDS: &[&str] = &["U", "W", "self", "nope", "", "G"];

/// a random rule object: mostly well-formed keys, arbitrary values
pub fn rule(rng: &mut Rng, depth: usize) -> Value {
  let mut m = Map::new();
  let n_keys = if depth > 4 { 1 } else { 1 + rng.below(3) };
  for _ in 0..n_keys {
    let deep = depth < 5;
    match rng.below(if deep { 16 } else { 7 }) {
      0 | 1 if CUR_LANG.with(|c| c.get()) >= 4 && !wild(rng) => m.insert("kind".into(), json!(kind(rng))),
      0 | 1 => m.insert("pattern".into(), if rng.chance(1, 6) && wild(rng) {
        json!({"context": pk(rng, PATTERNS, PATTERNS_OK), "selector": kind(rng), "strictness": pk(rng, &["cst", "smart", "ast", "relaxed", "signature", "nope"], 5)})
      } else {
        json!(pk(rng, PATTERNS, PATTERNS_OK))
      }),
      2 | 3 => m.insert("kind".into(), json!(kind(rng))),
      4 => m.insert("regex".into(), json!(pk(rng, REGEXES, REGEXES_OK))),
      5 => m.insert("nthChild".into(), nth(rng, depth)),
      6 if !wild(rng) => {
        let (l, c) = (rng.below(3), rng.below(6));
        m.insert("range".into(), json!({"start": {"line": l, "column": c}, "end": {"line": l + rng.below(2), "column": c + 1 + rng.below(8)}}))
      }
      6 => m.insert("range".into(), json!({"start": {"line": small(rng), "column": small(rng)}, "end": {"line": small(rng), "column": small(rng)}})),
      7 => m.insert("all".into(), Value::Array((0..1 + rng.below(2)).map(|_| rule(rng, depth + 1)).collect())),
      8 => m.insert("any".into(), Value::Array((0..1 + rng.below(2)).map(|_| rule(rng, depth + 1)).collect())),
      9 => m.insert("not".into(), rule(rng, depth + 1)),
      10 if wild(rng) => m.insert("matches".into(), json!(*rng.pick(UTIL_IDS))),
      10 => m.insert("kind".into(), json!(kind(rng))),
      11 => m.insert("inside".into(), relation(rng, depth)),
      12 => m.insert("has".into(), relation(rng, depth)),
      13 => m.insert("precedes".into(), relation(rng, depth)),
      14 => m.insert("follows".into(), relation(rng, depth)),
      _ => {
        if wild(rng) {
          m.insert(rng.pick(&["pattern", "kind", "all", "not", "bogus", "stopBy"]).to_string(), junk(rng))
        } else {
          m.insert("kind".into(), json!(kind(rng)))
        }
      }
    };
  }
  Value::Object(m)
}

fn transform(rng: &mut Rng) -> Value {
  let src = json!(pk(rng, VARS, VARS_OK));
  match rng.below(12) {
    0 | 1 => json!({"substring": {"source": src, "startChar": if rng.chance(3, 4) { small(rng) } else { num(rng) }, "endChar": if rng.chance(3, 4) { small(rng) } else { num(rng) }}}),
    2..=4 => json!({"replace": {"source": src, "replace": pk(rng, REGEXES, REGEXES_OK), "by": rng.pick(STRS)}}),
    5 | 6 => json!({"convert": {"source": src, "toCase": pk(rng, CASES, 7), "separatedBy": [pk(rng, &["dash", "dot", "space", "slash", "underscore", "caseChange", "nope"], 6)]}}),
    7 | 8 => json!({"rewrite": {"source": src, "rewriters": [pk(rng, &["rw", "rw2", "nope", ""], 1)], "joinBy": rng.pick(STRS)}}),
    9 => junk(rng),
    _ => json!({"substring": {"source": src}}),
  }
}

fn fixer(rng: &mut Rng) -> Value {
  match rng.below(10) {
    0..=5 => json!(pk(rng, &["bar($A)", "$A", "x\n  $A", "$A$A$A", "é", "", "$$$ARGS", "$T0 $RW", "$NOPE"], 6)),
    6 | 7 => json!({"template": rng.pick(&["bar($A)", "", "$T0"]), "expandEnd": relation(rng, 3), "expandStart": relation(rng, 3)}),
    8 => json!({"template": pk(rng, PATTERNS, PATTERNS_OK), "expandEnd": {"regex": ","}}),
    _ => junk(rng),
  }
}

/// generator 1: schema-directed documents: a valid skeleton, then 0-2 typed wild values
fn schema_doc(rng: &mut Rng) -> (String, Value) {
  let li = rng.below(LANGS.len());
  CUR_LANG.with(|c| c.set(li));
  WILD.with(|c| c.set(0));
  let (lang, _) = LANGS[li];
  let clike = li < 4 || li == 7;
  let mut m = Map::new();
  m.insert("id".into(), json!("t"));
  m.insert("language".into(), json!(lang));
  let mut r = match rule(rng, 1) {
    Value::Object(x) => x,
    _ => Map::new(),
  };
  let has_vars = clike && rng.chance(3, 4);
  if has_vars {
    r.insert("pattern".into(), json!(*rng.pick(&["foo($A, $B)", "foo($A, $B, $$$ARGS)", "$F($A, $B)"])));
    r.remove("kind");
  } else if !r.contains_key("kind") && !r.contains_key("pattern") {
    r.insert("kind".into(), json!(kind(rng)));
  }
  r.remove("matches");
  if rng.chance(1, 2) {
    let mut u = Map::new();
    u.insert("U".into(), json!({"kind": kind(rng)}));
    if rng.chance(1, 2) {
      u.insert("W".into(), json!({"any": [{"matches": "U"}, {"kind": kind(rng)}]}));
    }
    m.insert("utils".into(), Value::Object(u));
    match rng.below(3) {
      0 => r.insert("has".into(), json!({"matches": "U", "stopBy": "end"})),
      1 => r.insert("not".into(), json!({"inside": {"matches": "U"}})),
      _ => r.insert("all".into(), json!([{"not": {"matches": "U"}}])),
    };
  }
  m.insert("rule".into(), Value::Object(r));
  if has_vars {
    if rng.chance(1, 2) {
      m.insert("constraints".into(), json!({"A": rule(rng, 3)}));
    }
    let mut fixv = vec!["$A", "$B"];
    if rng.chance(2, 3) {
      let mut t = Map::new();
      t.insert("T0".into(), match rng.below(3) {
        0 => json!({"substring": {"source": "$A", "startChar": rng.below(3), "endChar": 2 + rng.below(3)}}),
        1 => json!({"replace": {"source": "$A", "replace": pk(rng, REGEXES, REGEXES_OK), "by": "z"}}),
        _ => json!({"convert": {"source": "$B", "toCase": pk(rng, CASES, 7)}}),
      });
      fixv.push("$T0");
      if rng.chance(1, 2) {
        t.insert("T1".into(), json!({"replace": {"source": "$T0", "replace": "a", "by": "b"}}));
        fixv.push("$T1");
      }
      if rng.chance(1, 2) {
        // the rewriter's fix is plain or an object whose expansions can reach outside the captured text
        let rw_fix = match rng.below(4) {
          0 | 1 => json!("N"),
          2 => json!({"template": "N", "expandStart": {"regex": "^[,(]$"}, "expandEnd": {"regex": "^[,)]$"}}),
          _ => json!({"template": "N", "expandStart": {"regex": ",", "stopBy": "end"}}),
        };
        let rw_kind = if rng.chance(1, 2) { json!("identifier") } else { json!(kind(rng)) };
        m.insert("rewriters".into(), json!([{"id": "rw", "rule": {"kind": rw_kind}, "fix": rw_fix}]));
        let mut rw = serde_json::Map::new();
        rw.insert("source".into(), json!(*rng.pick(&["$B", "$B", "$A", "$$$ARGS"])));
        rw.insert("rewriters".into(), json!(["rw"]));
        if rng.chance(1, 2) {
          rw.insert("joinBy".into(), json!(*rng.pick(&[",", " + ", ""])));
        }
        t.insert("RW".into(), json!({"rewrite": Value::Object(rw)}));
        fixv.push("$RW");
      }
      m.insert("transform".into(), Value::Object(t));
    }
    if rng.chance(3, 4) {
      let tpl = format!("bar({})", fixv.join(", "));
      m.insert("fix".into(), if rng.chance(1, 2) { json!(tpl) } else { json!({"template": tpl, "expandEnd": {"regex": "^[,;]$"}}) });
    }
    if rng.chance(1, 3) {
      m.insert("message".into(), json!("found $A and $B"));
    }
  }
  if rng.chance(1, 4) {
    m.insert("severity".into(), json!(*rng.pick(&["error", "warning", "info", "hint", "off", "off"])));
  }
  // which files the rule applies to (the scanned tree is `src/...`)
  if rng.chance(1, 4) {
    m.insert("files".into(), json!([*rng.pick(&["src/**", "**/*", "**/*.js", "src/a.js", "nothing/**", "src/[a-", ""])]));
  }
  if rng.chance(1, 6) {
    m.insert("ignores".into(), json!([*rng.pick(&["nothing/**", "**/b.*", "src/**", "[!", ""])]));
  }
  if rng.chance(1, 8) {
    m.insert("note".into(), json!(*rng.pick(STRS)));
    m.insert("url".into(), json!(*rng.pick(STRS)));
    m.insert("metadata".into(), json!({"k": [1, {"x": null}], "s": *rng.pick(STRS)}));
  }
  if rng.chance(1, 8) {
    m.insert("labels".into(), json!({*rng.pick(&["A", "B", "ZZ", "ARGS"]): {"style": *rng.pick(&["primary", "secondary", "nope"]), "message": *rng.pick(&["m $A", "", "$$$ARGS"])}}));
  }
  let mut doc = Value::Object(m);
  // typed wild values
  WILD.with(|c| c.set(100));
  let k = *rng.pick(&[0usize, 1, 1, 1, 2, 2, 3]);
  for _ in 0..k {
    let mut ps = vec![];
    paths(&doc, &mut vec![], &mut ps);
    let p = rng.pick(&ps).clone();
    let key = p.last().cloned().unwrap_or_default();
    let v = match key.as_str() {
      "regex" | "replace" => json!(*rng.pick(REGEXES)),
      "kind" | "selector" => json!(*rng.pick(KINDS)),
      "pattern" | "context" | "template" | "fix" => if rng.chance(1, 5) { junk(rng) } else { json!(*rng.pick(PATTERNS)) },
      "nthChild" | "position" => nth(rng, 3),
      "source" => json!(*rng.pick(VARS)),
      "startChar" | "endChar" | "line" | "column" => num(rng),
      "stopBy" => stop_by(rng, 3),
      "toCase" => json!(*rng.pick(CASES)),
      "matches" => json!(*rng.pick(UTIL_IDS)),
      "rewriters" => if rng.chance(1, 2) { json!([{"id": "rw", "rule": {"kind": kind(rng)}, "fix": "N"}, {"id": "rw", "rule": {"kind": kind(rng)}, "fix": "M"}]) } else { junk(rng) },
      "id" => json!(*rng.pick(&["", "é", "a b", "unused-suppression", "rw"])),
      "language" => json!(*rng.pick(&["js", "nope", "", "TSX", "c++"])),
      "rule" | "has" | "inside" | "not" | "follows" | "precedes" | "ofRule" => rule(rng, 2),
      _ => junk(rng),
    };
    if let Some(x) = get_mut(&mut doc, &p) {
      *x = v;
    }
  }
  WILD.with(|c| c.set(12));
  (lang.to_string(), doc)
}

/// valid seeds for the mutation generator
fn seed(rng: &mut Rng) -> (String, Value) {
  let seeds = [
    json!({"id":"s1","language":"JavaScript","rule":{"pattern":"foo($A, $B)"},"constraints":{"A":{"kind":"identifier"}},"transform":{"T0":{"substring":{"source":"$A","startChar":0,"endChar":2}}},"fix":"bar($T0, $B)"}),
    json!({"id":"s2","language":"JavaScript","rule":{"kind":"number","inside":{"kind":"arguments","stopBy":"end"}},"fix":{"template":"0","expandEnd":{"regex":","}}}),
    json!({"id":"s3","language":"JavaScript","rule":{"pattern":"foo($$$ARGS)"},"rewriters":[{"id":"rw","rule":{"kind":"number"},"fix":"N"}],"transform":{"RW":{"rewrite":{"source":"$$$ARGS","rewriters":["rw"],"joinBy":", "}}},"fix":"foo($RW)"}),
    json!({"id":"s4","language":"Python","rule":{"pattern":"foo($A, $B)","has":{"matches":"U","stopBy":"end"}},"utils":{"U":{"kind":"integer"},"W":{"any":[{"matches":"U"},{"kind":"identifier"}]}},"message":"found $A"}),
    json!({"id":"s5","language":"Rust","rule":{"all":[{"kind":"call_expression"},{"has":{"kind":"identifier","nthChild":{"position":"2n+1","reverse":true,"ofRule":{"kind":"identifier"}}}}]}}),
    json!({"id":"s6","language":"Html","rule":{"kind":"element","has":{"kind":"start_tag","field":"nope"}}}),
    json!({"id":"s7","language":"Css","rule":{"pattern":"margin: $$$V","follows":{"pattern":"color: $C","stopBy":{"kind":"declaration"}}},"fix":"padding: $$$V"}),
  ];
  let v = rng.pick(&seeds).clone();
  (v["language"].as_str().unwrap().to_string(), v)
}

fn paths(v: &Value, cur: &mut Vec<String>, out: &mut Vec<Vec<String>>) {
  match v {
    Value::Object(m) => {
      for (k, x) in m {
        cur.push(k.clone());
        out.push(cur.clone());
        paths(x, cur, out);
        cur.pop();
      }
    }
    Value::Array(a) => {
      for (i, x) in a.iter().enumerate() {
        cur.push(i.to_string());
        out.push(cur.clone());
        paths(x, cur, out);
        cur.pop();
      }
    }
    _ => {}
  }
}
fn get_mut<'a>(v: &'a mut Value, path: &[String]) -> Option<&'a mut Value> {
  let mut cur = v;
  for p in path {
    cur = match cur {
      Value::Object(m) => m.get_mut(p)?,
      Value::Array(a) => a.get_mut(p.parse::<usize>().ok()?)?,
      _ => return None,
    };
  }
  Some(cur)
}

/// generator 2: mutate a valid document (delete / duplicate / rename a key, change a scalar's type, splice sub-trees)
fn mutated_doc(rng: &mut Rng) -> (String, Value) {
  let (lang, mut doc) = seed(rng);
  for _ in 0..1 + rng.below(3) {
    let mut ps = vec![];
    paths(&doc, &mut vec![], &mut ps);
    if ps.is_empty() {
      break;
    }
    let p = rng.pick(&ps).clone();
    let (parent, last) = p.split_at(p.len() - 1);
    match rng.below(6) {
      0 => {
        if let Some(Value::Object(m)) = get_mut(&mut doc, parent) {
          m.remove(&last[0]);
        }
      }
      1 => {
        if let Some(Value::Object(m)) = get_mut(&mut doc, parent) {
          if let Some(v) = m.remove(&last[0]) {
            m.insert(rng.pick(&["pattern", "kind", "rule", "fix", "all", "not", "matches", "stopBy", "source", "template", "bogus"]).to_string(), v);
          }
        }
      }
      2 => {
        if let Some(x) = get_mut(&mut doc, &p) {
          *x = junk(rng);
        }
      }
      3 => {
        // splice: copy another sub-tree here
        let q = rng.pick(&ps).clone();
        let src = get_mut(&mut doc, &q).cloned();
        if let (Some(s), Some(x)) = (src, get_mut(&mut doc, &p)) {
          *x = s;
        }
      }
      4 => {
        if let Some(x) = get_mut(&mut doc, &p) {
          *x = rule(rng, 2);
        }
      }
      _ => {
        if let Some(Value::String(s)) = get_mut(&mut doc, &p) {
          *s = rng.pick(PATTERNS).to_string();
        }
      }
    }
  }
  (lang, doc)
}

/// generator 3: reference cycles through every operator that can carry a reference
fn cyclic_doc(rng: &mut Rng) -> (String, Value) {
  let wrap = |op: usize, inner: Value| -> Value {
    match op {
      0 => inner,
      1 => json!({"all": [inner]}),
      2 => json!({"any": [inner, {"kind": "number"}]}),
      3 => json!({"not": inner}),
      4 => json!({"has": inner}),
      5 => json!({"inside": inner}),
      6 => json!({"precedes": inner}),
      7 => json!({"follows": inner}),
      8 => json!({"has": {"kind": "number", "stopBy": inner}}),
      9 => json!({"kind": "number", "nthChild": {"position": 1, "ofRule": inner}}),
      10 => json!({"has": {"all": [inner], "stopBy": "end"}}),
      _ => json!({"kind": "number", "nthChild": {"position": "2n", "reverse": true, "ofRule": {"not": inner}}}),
    }
  };
  let op1 = rng.below(12);
  let op2 = rng.below(12);
  let mut doc = json!({"id":"c","language":"JavaScript","rule":{"pattern":"foo($A, $B)","has":{"matches":"U","stopBy":"end"}}});
  let mut utils = Map::new();
  match rng.below(4) {
    0 => {
      utils.insert("U".into(), wrap(op1, json!({"matches": "U"})));
    }
    1 => {
      utils.insert("U".into(), wrap(op1, json!({"matches": "W"})));
      utils.insert("W".into(), wrap(op2, json!({"matches": "U"})));
    }
    2 => {
      utils.insert("U".into(), json!({"kind": "number"}));
      doc["constraints"] = json!({"A": wrap(op1, json!({"matches": "U"})), "B": {"pattern": "$A"}});
      doc["fix"] = json!({"template": "x", "expandStart": wrap(op2, json!({"matches": "U"})), "expandEnd": wrap(op1, json!({"matches": "nope"}))});
    }
    _ => {
      utils.insert("U".into(), json!({"kind": "number"}));
      doc["rewriters"] = json!([{"id": "rw", "rule": {"kind": "number"}, "transform": {"X": {"rewrite": {"source": "$$$ARGS", "rewriters": ["rw"]}}}, "fix": "$X"},
        {"id": "rw2", "rule": {"pattern": "$Y"}, "transform": {"Z": {"rewrite": {"source": "$Y", "rewriters": ["rw2", "rw"]}}}, "fix": "($Z)"}]);
      doc["rule"] = json!({"pattern": "foo($$$ARGS)"});
      doc["transform"] = json!({"T0": {"rewrite": {"source": "$$$ARGS", "rewriters": [rng.pick(&["rw", "rw2"])]}}, "T1": {"substring": {"source": "$T2"}}, "T2": {"replace": {"source": if rng.chance(1, 2) { "$T1" } else { "$T0" }, "replace": "a", "by": "b"}}});
      doc["fix"] = json!("$T0 $T2");
    }
  }
  doc["utils"] = Value::Object(utils);
  ("JavaScript".into(), doc)
}

/// generator 4: raw text
fn raw_doc(rng: &mut Rng) -> (String, String) {
  let fixed = [
    "", "\n", "---\n---\n", "id: t\nlanguage: js\nrule: {pattern: a}\n---\nid: u", "a: &a [*a]", "&a [*a, *a]", "id: [", "{", "- - - - - - - -", "\t\tid: x", "id: t\nlanguage: js\nrule:\n  pattern: |\n    foo(\n",
    "!!python/object:x {}", "? a\n: b", "id: t\nlanguage: js\nrule: *undefined", "\u{feff}id: t", "id: t\r\nlanguage: js\r\nrule: {kind: number}\r\n",
    "a: &x {b: *x}", "id: 1\nlanguage: 2\nrule: 3", "rule: {pattern: a}\nrule: {pattern: b}\nid: d\nlanguage: js",
  ];
  let s = if rng.chance(1, 2) {
    rng.pick(&fixed).to_string()
  } else if rng.chance(1, 2) {
    // truncated / byte-damaged valid document
    let (_, d) = seed(rng);
    let mut t = serde_yaml::to_string(&d).unwrap_or_default();
    let cut = rng.below(t.len().max(1));
    while !t.is_char_boundary(cut.min(t.len())) {
      t.pop();
    }
    t.truncate(cut.min(t.len()));
    if rng.chance(1, 2) {
      let tail: &str = *rng.pick(&[": [", "\n  - {", "\n\t", "&", "*z", "'"]);
      t.push_str(tail);
    }
    t
  } else {
    (0..rng.below(60)).map(|_| *rng.pick(&[':', ' ', '\n', '-', '{', '}', '[', ']', 'a', '$', '"', '\'', '#', '&', '*', '|', '>', '\t', 'é', '?', ','])).collect()
  };
  ("JavaScript".into(), s)
}

pub fn case(idx: u64, seed: u64) -> (String, String, &'static str) {
  let mut rng = Rng::new(seed).derive(hash_str("c11")).derive(idx + 1);
  match idx % 8 {
    0 | 1 | 2 => {
      let (l, d) = schema_doc(&mut rng);
      (l, serde_json::to_string(&d).unwrap(), "schema")
    }
    3 | 4 => {
      let (l, d) = mutated_doc(&mut rng);
      (l, serde_json::to_string(&d).unwrap(), "mutated")
    }
    5 | 6 => {
      let (l, d) = cyclic_doc(&mut rng);
      (l, serde_json::to_string(&d).unwrap(), "cyclic")
    }
    _ => {
      let (l, s) = raw_doc(&mut rng);
      (l, s, "raw")
    }
  }
}

fn texts_for(lang: &str) -> &'static [&'static str] {
  LANGS.iter().find(|(l, _)| *l == lang).map(|x| x.1).unwrap_or(&["foo(abc, 12);\n"])
}

/// load (as rule file and as global-utility file) and, when accepted, scan a few texts
pub fn run_case(lang_name: &str, yaml: &str, gen: &str, rep: &mut Report) {
  let replay = json!({"monitor":"c11","lang":lang_name,"yaml":yaml,"generator":gen});
  rep.evaluations += 1;
  // as a utility-rule file
  let r = guarded(|| {
    let docs: Result<Vec<_>, _> = serde_yaml::Deserializer::from_str(yaml).map(|d| serde::Deserialize::deserialize(d)).collect();
    match docs {
      Ok(v) => DeserializeEnv::<SupportLang>::parse_global_utils(v).map(|_| ()).map_err(|e| e.to_string()),
      Err(e) => Err(e.to_string()),
    }
  });
  if let Err(p) = r {
    rep.violation(&format!("C11/panic/load-utils/{}", p.site()), &format!("loading as utility rules panicked at {}: {} :: {}", p.location, p.message, clip(yaml, 300)), replay.clone());
  }
  // as a rule file
  let loaded = guarded(|| from_yaml_string::<SupportLang>(yaml, &GlobalRules::default()));
  let rules: Vec<RuleConfig<SupportLang>> = match loaded {
    Err(p) => {
      rep.violation(&format!("C11/panic/load/{}", p.site()), &format!("loading panicked at {}: {} :: {}", p.location, p.message, clip(yaml, 300)), replay);
      return;
    }
    Ok(Err(e)) => {
      let deep = std::error::Error::source(&e).is_some();
      if deep {
        rep.nontrivial(hash_str(yaml));
      }
      rep.count(&format!("rejected.{gen}"), 1);
      if std::env::var("VMON_WHY").is_ok() {
        let mut msg = format!("{e}");
        let mut src = std::error::Error::source(&e);
        while let Some(s) = src {
          msg = format!("{s}");
          src = s.source();
        }
        let key: String = msg.chars().filter(|c| !c.is_ascii_digit()).take(60).collect();
        rep.count(&format!("why.{gen}: {key}"), 1);
      }
      return;
    }
    Ok(Ok(v)) => v,
  };
  rep.count(&format!("accepted.{gen}"), 1);
  let mut matched = 0usize;
  for cfg in &rules {
    let lang = cfg.language;
    let lname = format!("{:?}", lang);
    for text in texts_for(&lname).iter().chain(["foo(abc, 12);\nfoo(x, 1, 2)\n"].iter()) {
      let r = guarded(|| {
        let grep = lang.ast_grep(text);
        let scan = CombinedScan::new(vec![cfg]);
        let res = scan.scan(&grep, false);
        let mut n = 0;
        for (rule, nms) in &res.matches {
          for nm in nms {
            n += 1;
            let _ = rule.get_message(nm);
            if let Some(f) = rule.matcher.fixer.as_ref() {
              let e = nm.make_edit(&rule.matcher, f);
              let _ = (e.position, e.deleted_length, e.inserted_text.len());
            }
          }
        }
        let res2 = scan.scan(&grep, true);
        n + res2.diffs.len()
      });
      match r {
        Ok(n) => matched += n,
        Err(p) => rep.violation(&format!("C11/panic/scan/{}", p.site()), &format!("scanning {:?} panicked at {}: {} :: {}", clip(text, 40), p.location, p.message, clip(yaml, 300)), replay.clone()),
      }
    }
  }
  if matched > 0 {
    rep.nontrivial(hash_str(yaml));
    rep.count("accepted_with_match", 1);
  }
}

fn arg(ctx: &Ctx, key: &str) -> Option<u64> {
  ctx.args.iter().find_map(|a| a.strip_prefix(&format!("{key}=")).and_then(|v| v.parse().ok()))
}

pub fn run(ctx: &Ctx, rep: &mut Report) {
  if let Some(r) = &ctx.replay {
    run_case(r["lang"].as_str().unwrap_or("JavaScript"), r["yaml"].as_str().unwrap(), r["generator"].as_str().unwrap_or("replay"), rep);
    return;
  }
  if let Some(i) = arg(ctx, "dump") {
    let (l, y, g) = case(i, ctx.seed);
    rep.samples.push(json!({"monitor":"c11","lang":l,"yaml":y,"generator":g,"index":i}));
    return;
  }
  if let (Some(a), Some(b)) = (arg(ctx, "dumpfrom"), arg(ctx, "dumpto")) {
    for i in a..b {
      let (l, y, g) = case(i, ctx.seed);
      rep.samples.push(json!({"monitor":"c11","lang":l,"yaml":y,"generator":g,"index":i}));
    }
    return;
  }
  let total = ctx.budget(24000, 2000000) as u64;
  let base = ctx.shard as u64 * total;
  let from = arg(ctx, "from").unwrap_or(base);
  let to = arg(ctx, "to").unwrap_or(base + total);
  for i in from..to {
    let (l, y, g) = case(i, ctx.seed);
    // progress marker for the driver: the index being executed (single write, overwritten)
    if let Some(p) = ctx.args.iter().find_map(|a| a.strip_prefix("progress=")) {
      let _ = std::fs::write(p, i.to_string());
    }
    run_case(&l, &y, g, rep);
    if i < from + 2 {
      rep.sample(json!({"generator": g, "yaml": clip(&y, 400)}));
    }
  }
  rep.count("range_from", from);
  rep.count("range_to", to);
}
