//! C04 — meta-variable bindings are coherent and failed alternatives leave no trace.
use crate::corpus::{self};
use crate::mon::c05::{disjoint_patterns, excerpt, r_from_value};
use crate::refsem::rule::{self, GenCfg, Harvest, R};
use crate::refsem::rule_env::{emu_eval, eval, Ctx as ECtx, Emu, Env, GlobalUtil, Leaks};
use crate::rng::{hash_parts, Rng};
use crate::util::{clip, guarded, N};
use crate::{Ctx, Report};
use ast_grep_config::{from_yaml_string, DeserializeEnv, GlobalRules, RuleConfig};
use ast_grep_core::matcher::MatcherExt;
use ast_grep_core::meta_var::MetaVariable;
use ast_grep_core::Language;
use ast_grep_language::SupportLang;
use serde_json::{json, Map, Value};
use std::collections::BTreeMap;

pub struct Doc4 {
  pub rule: R,
  pub utils: BTreeMap<String, R>,
  /// constraints on single variables: boolean rules only (kind / regex), so that their
  /// evaluation order cannot matter
  pub constraints: BTreeMap<String, R>,
  /// optional global utility: (id, rule, constraints)
  pub global: Option<(String, R, BTreeMap<String, R>)>,
}

impl Doc4 {
  pub fn yaml(&self, lang: &str) -> String {
    let mut m = Map::new();
    m.insert("id".into(), json!("t"));
    m.insert("language".into(), json!(lang));
    m.insert("rule".into(), self.rule.to_value());
    if !self.utils.is_empty() {
      m.insert("utils".into(), Value::Object(self.utils.iter().map(|(k, v)| (k.clone(), v.to_value())).collect()));
    }
    if !self.constraints.is_empty() {
      m.insert("constraints".into(), Value::Object(self.constraints.iter().map(|(k, v)| (k.clone(), v.to_value())).collect()));
    }
    serde_json::to_string(&Value::Object(m)).unwrap()
  }
  pub fn global_yaml(&self, lang: &str) -> Option<String> {
    let (id, rule, cons) = self.global.as_ref()?;
    let mut m = Map::new();
    m.insert("id".into(), json!(id));
    m.insert("language".into(), json!(lang));
    m.insert("rule".into(), rule.to_value());
    if !cons.is_empty() {
      m.insert("constraints".into(), Value::Object(cons.iter().map(|(k, v)| (k.clone(), v.to_value())).collect()));
    }
    Some(serde_json::to_string(&Value::Object(m)).unwrap())
  }
  pub fn to_json(&self) -> Value {
    json!({
      "rule": self.rule.to_value(),
      "utils": self.utils.iter().map(|(k, v)| (k.clone(), v.to_value())).collect::<Map<_, _>>(),
      "constraints": self.constraints.iter().map(|(k, v)| (k.clone(), v.to_value())).collect::<Map<_, _>>(),
      "global": self.global.as_ref().map(|(id, r, c)| json!({"id": id, "rule": r.to_value(), "constraints": c.iter().map(|(k, v)| (k.clone(), v.to_value())).collect::<Map<_, _>>()})),
    })
  }
  pub fn from_json(v: &Value) -> Option<Doc4> {
    let map = |x: &Value| -> BTreeMap<String, R> {
      x.as_object().map(|m| m.iter().filter_map(|(k, v)| Some((k.clone(), r_from_value(v)?))).collect()).unwrap_or_default()
    };
    Some(Doc4 {
      rule: r_from_value(&v["rule"])?,
      utils: map(&v["utils"]),
      constraints: map(&v["constraints"]),
      global: match &v["global"] {
        Value::Null => None,
        g => Some((g["id"].as_str()?.to_string(), r_from_value(&g["rule"])?, map(&g["constraints"]))),
      },
    })
  }
}

pub fn load(doc: &Doc4, lang: SupportLang) -> Result<RuleConfig<SupportLang>, String> {
  let lname = corpus::lang_name(lang);
  let globals = match doc.global_yaml(&lname) {
    Some(g) => {
      let ser = ast_grep_config::from_str(&g).map_err(|e| format!("global yaml: {e}"))?;
      DeserializeEnv::parse_global_utils(vec![ser]).map_err(|e| format!("global: {e}"))?
    }
    None => GlobalRules::default(),
  };
  let mut v = from_yaml_string::<SupportLang>(&doc.yaml(&lname), &globals).map_err(|e| {
    let mut msg = format!("{e}");
    let mut src = std::error::Error::source(&e);
    while let Some(s) = src {
      msg = format!("{s}");
      src = s.source();
    }
    msg
  })?;
  if v.len() != 1 {
    return Err("not one document".into());
  }
  Ok(v.remove(0))
}

/// reference evaluation of the whole document on one node
fn ref_eval<'a>(doc: &Doc4, n: &N<'a>, ctx: &ECtx) -> Option<Env<'a>> {
  let mut env = eval(&doc.rule, n, &Env::default(), ctx)?;
  for (var, c) in &doc.constraints {
    if let Some(b) = env.single.get(var).cloned() {
      env = eval(c, &b, &env, ctx)?;
    }
  }
  Some(env)
}

fn prepare(doc: &Doc4, lang: SupportLang, emu: Emu) -> Option<ECtx> {
  let mut ctx = ECtx::new(lang);
  ctx.emu = emu;
  ctx.prepare(&doc.rule).ok()?;
  for u in doc.utils.values().chain(doc.constraints.values()) {
    ctx.prepare(u).ok()?;
  }
  ctx.utils = doc.utils.iter().map(|(k, v)| (k.clone(), v.clone())).collect();
  if let Some((id, r, cons)) = &doc.global {
    ctx.prepare(r).ok()?;
    for c in cons.values() {
      ctx.prepare(c).ok()?;
    }
    // a global utility is its rule followed by its constraints; constraints are boolean atoms,
    // expressed here as extra conjuncts on the bound variable via a wrapper is not possible in R,
    // so global constraints are folded at evaluation time (see eval_global below)
    if !cons.is_empty() {
      ctx.global_cons = Some((id.clone(), cons.clone()));
    }
    ctx.utils.insert(id.clone(), r.clone());
  }
  Some(ctx)
}

type Summary = (BTreeMap<String, (usize, usize)>, BTreeMap<String, Vec<(usize, usize)>>);

fn impl_summary(nm: &ast_grep_core::NodeMatch<ast_grep_core::StrDoc<SupportLang>>) -> Summary {
  let env = nm.get_env();
  let mut single = BTreeMap::new();
  let mut multi = BTreeMap::new();
  for v in env.get_matched_variables() {
    match v {
      MetaVariable::Capture(name, _) => {
        if let Some(n) = env.get_match(&name) {
          single.insert(name, (n.range().start, n.range().end));
        }
      }
      MetaVariable::MultiCapture(name) => {
        if name == "secondary" {
          continue;
        }
        multi.insert(name.clone(), env.get_multiple_matches(&name).iter().map(|n| (n.range().start, n.range().end)).collect());
      }
      _ => {}
    }
  }
  (single, multi)
}

fn shared_names(doc: &Doc4) -> bool {
  let mut counts: BTreeMap<String, usize> = BTreeMap::new();
  let re = regex::Regex::new(r"\$+([A-Z][A-Z0-9_]*)").unwrap();
  let mut visit = |r: &R| {
    r.walk(&mut |x| {
      if let R::Pattern(p) = x {
        let mut seen = std::collections::BTreeSet::new();
        for c in re.captures_iter(p) {
          seen.insert(c[1].to_string());
        }
        for s in seen {
          *counts.entry(s).or_insert(0) += 1;
        }
      }
    })
  };
  visit(&doc.rule);
  doc.utils.values().for_each(&mut visit);
  if let Some((_, r, _)) = &doc.global {
    visit(r);
  }
  counts.values().any(|c| *c >= 2)
}

fn ops_of(doc: &Doc4) -> String {
  let mut ops = doc.rule.operators();
  for u in doc.utils.values() {
    ops.extend(u.operators());
  }
  if !doc.constraints.is_empty() {
    ops.push("constraints");
  }
  if doc.global.is_some() {
    ops.push("global-util");
  }
  ops.sort();
  ops.dedup();
  ops.join("+")
}

/// returns (matches, non-matches) of the implementation
pub fn check_doc(lang: SupportLang, fname: &str, src: &str, doc: &Doc4, rep: &mut Report) -> Option<(usize, usize)> {
  let lname = corpus::lang_name(lang);
  let replay = |n: Option<&N>| {
    json!({"monitor":"c04","lang":lname,"file":fname,"source":src,"doc":doc.to_json(),
      "node": n.map(|n| json!([n.range().start, n.range().end])), "kind": n.map(|n| n.kind().to_string())})
  };
  // a global utility with constraints cannot be expressed in the reference AST: the generator
  // only attaches constraints to globals whose rule is a single pattern, and the reference folds
  // them in here by turning the global into  all:[rule, <constraint as boolean test on the var>]
  let cfg = match guarded(|| load(doc, lang)) {
    Ok(Ok(c)) => c,
    Ok(Err(e)) => {
      rep.count("docs_rejected", 1);
      let key: String = e.chars().filter(|c| !c.is_ascii_digit()).take(70).collect();
      rep.count(&format!("rejected: {key}"), 1);
      return None;
    }
    Err(p) => {
      rep.violation(&format!("C04/panic-load/{}", p.site()), &format!("loading panicked at {}: {}", p.location, p.message), replay(None));
      return None;
    }
  };
  let ctx = prepare(doc, lang, Emu::default())?;
  let ctx_leak = prepare(doc, lang, Emu { not_leaks: true })?;
  let grep = lang.ast_grep(src);
  let (mut t, mut f) = (0, 0);
  for n in grep.root().dfs() {
    rep.evaluations += 1;
    let got = match guarded(|| cfg.matcher.match_node(n.clone()).map(|nm| impl_summary(&nm))) {
      Ok(g) => g,
      Err(p) => {
        rep.violation(&format!("C04/panic/{}", p.site()), &format!("match_node panicked at {}: {}", p.location, p.message), replay(Some(&n)));
        continue;
      }
    };
    if got.is_some() {
      t += 1
    } else {
      f += 1
    }
    ctx.ambiguous.set(false);
    let want = global_aware_eval(doc, &n, &ctx).map(|e| e.summary());
    if got == want {
      continue;
    }
    if ctx.ambiguous.get() {
      // a parent with several children under the requested field: the statement leaves the choice open
      rep.count("nodes_skipped_ambiguous_field", 1);
      continue;
    }
    // attribution: which leak emulation (threaded environment) reproduces the implementation exactly?
    let emulate = |lk: Leaks| -> Option<Summary> {
      let g = doc.global.as_ref().map(|(id, r, c)| GlobalUtil { id, rule: r, constraints: c });
      let mut env = Env::default();
      if !emu_eval(&doc.rule, &n, &mut env, &ctx, lk, g.as_ref()) {
        return None;
      }
      for (var, c) in &doc.constraints {
        if let Some(b) = env.single.get(var).cloned() {
          if !emu_eval(c, &b, &mut env, &ctx, lk, None) {
            return None;
          }
        }
      }
      Some(env.summary())
    };
    let _ = &ctx_leak;
    let sig = if emulate(Leaks { not_direct: true, global_direct: false }) == got {
      "C04/leak/not".to_string()
    } else if emulate(Leaks { not_direct: false, global_direct: true }) == got {
      "C04/leak/global-util-failed-constraint".to_string()
    } else if emulate(Leaks { not_direct: true, global_direct: true }) == got {
      "C04/leak/not+global-util-failed-constraint".to_string()
    } else {
      let class = match (&got, &want) {
        (Some(_), None) => "outcome/impl=match",
        (None, Some(_)) => "outcome/impl=no-match",
        (Some(g), Some(w)) => {
          if g.0.keys().chain(g.1.keys()).any(|k| !w.0.contains_key(k) && !w.1.contains_key(k)) {
            "env/extra-variable"
          } else if w.0.keys().chain(w.1.keys()).any(|k| !g.0.contains_key(k) && !g.1.contains_key(k)) {
            "env/missing-variable"
          } else {
            "env/different-binding"
          }
        }
        _ => "?",
      };
      format!("C04/{class}/ops={}", ops_of(doc))
    };
    rep.violation(
      &sig,
      &format!("rule {} on `{}`: implementation {:?}, reference {:?}", clip(&doc.to_json().to_string(), 260), clip(&n.text(), 50), got, want),
      replay(Some(&n)),
    );
  }
  Some((t, f))
}

/// reference evaluation where `matches: <global>` means: the global's rule, then its constraints;
/// a failing constraint makes the utility fail as a whole (nothing of it survives)
fn global_aware_eval<'a>(doc: &Doc4, n: &N<'a>, ctx: &ECtx) -> Option<Env<'a>> {
  // the evaluation context knows the constrained global (rule_env::Ctx::global_cons), wherever it is referenced
  ref_eval(doc, n, ctx)
}

// ------------------------------------------------------------------ generators

const SHARED: [&str; 3] = ["A", "B", "F"];

/// synthetic JS: sibling lists with decoys that bind a shared variable and then fail
fn synth_js(rng: &mut Rng) -> (Vec<String>, Harvest) {
  let funcs = ["f", "g", "h", "k"];
  let args = ["1", "2", "3", "x"];
  let n = 3 + rng.below(3);
  let mut stmts = vec![];
  for _ in 0..n {
    let f = rng.pick(&funcs);
    let s = match rng.below(4) {
      0 => format!("{f}({}, {});", rng.pick(&args), rng.pick(&args)),
      1 => format!("{{ {f}({}); }}", rng.pick(&args)),
      _ => format!("{f}({});", rng.pick(&args)),
    };
    stmts.push(s);
  }
  stmts.push("last();".to_string());
  let patterns: Vec<String> = ["f($A);", "g($A);", "h($B);", "$F($A);", "$F($A, $B);", "$F($A, $A);", "$F($$$R);", "last();", "$F($A)", "g($B)", "$A", "{ $$$BODY }", "k($A, $$$R);"]
    .iter()
    .map(|s| s.to_string())
    .collect();
  let h = Harvest {
    kinds: ["expression_statement", "call_expression", "number", "identifier", "arguments", "statement_block"].iter().map(|s| s.to_string()).collect(),
    patterns,
    idents: ["1", "2", "x", "f", "g"].iter().map(|s| s.to_string()).collect(),
    ranges: vec![],
    fields: vec![],
  };
  (stmts, h)
}

/// shapes the property names explicitly: a relation / `any` / `not` / utility over candidates that
/// bind a shared variable and may then fail (decoys), next to the candidate that should win
fn gen_targeted(h: &Harvest, utils: &mut BTreeMap<String, R>, rng: &mut Rng) -> R {
  let pat = |rng: &mut Rng| R::Pattern(rng.pick(&h.patterns).clone());
  let kind = |rng: &mut Rng| R::Kind(rng.pick(&h.kinds).clone());
  fn inner(h: &Harvest, utils: &mut BTreeMap<String, R>, rng: &mut Rng, depth: usize) -> R {
    let pat = |rng: &mut Rng| R::Pattern(rng.pick(&h.patterns).clone());
    match rng.below(if depth > 1 { 5 } else { 9 }) {
      0 | 1 => pat(rng),
      2 => R::Not(Box::new(pat(rng))),
      3 => R::All(vec![pat(rng), pat(rng)]),
      4 => R::Any(vec![R::All(vec![pat(rng), R::Kind(rng.pick(&h.kinds).clone())]), pat(rng)]),
      5 => R::Obj(vec![pat(rng), relation(h, utils, rng, depth + 1)]),
      6 => R::Not(Box::new(R::Obj(vec![pat(rng), relation(h, utils, rng, depth + 1)]))),
      7 => {
        let id = format!("U{}", utils.len());
        let u = inner(h, utils, rng, depth + 1);
        utils.insert(id.clone(), u);
        R::Matches(id)
      }
      _ => R::Any(vec![R::Not(Box::new(pat(rng))), pat(rng)]),
    }
  }
  fn relation(h: &Harvest, utils: &mut BTreeMap<String, R>, rng: &mut Rng, depth: usize) -> R {
    let x = Box::new(inner(h, utils, rng, depth));
    let stop = match rng.below(6) {
      0 => rule::Stop::Neighbor,
      1 => rule::Stop::Rule(Box::new(R::Kind(rng.pick(&h.kinds).clone()))),
      _ => rule::Stop::End,
    };
    match rng.below(4) {
      0 => R::Follows(x, stop),
      1 => R::Precedes(x, stop),
      2 => R::Has(x, stop, None),
      _ => R::Inside(x, stop, None),
    }
  }
  match rng.below(6) {
    0 | 1 | 2 => relation(h, utils, rng, 0),
    3 => R::Any(vec![R::All(vec![pat(rng), kind(rng)]), R::All(vec![pat(rng), relation(h, utils, rng, 1)]), pat(rng)]),
    4 => R::All(vec![pat(rng), relation(h, utils, rng, 1)]),
    _ => R::Not(Box::new(relation(h, utils, rng, 0))),
  }
}

fn gen_doc(h: &Harvest, anchor: Option<&str>, rng: &mut Rng, depth: usize) -> Doc4 {
  if h.patterns.is_empty() || h.kinds.is_empty() || h.idents.is_empty() {
    return Doc4 { rule: R::Kind("x".into()), utils: BTreeMap::new(), constraints: BTreeMap::new(), global: None };
  }
  let mut utils = BTreeMap::new();
  for i in 0..rng.below(3) {
    let cfg = GenCfg { picks: std::cell::Cell::new(0), disjoint_vars: false, max_depth: 2, utils: utils.keys().cloned().collect(), allow_field: false, allow_range: false };
    let mut r = rule::gen_rule(h, &cfg, 0, rng);
    strip_of_rule_patterns(&mut r);
    utils.insert(format!("U{i}"), r);
  }
  let cfg = GenCfg { picks: std::cell::Cell::new(0), disjoint_vars: false, max_depth: depth, utils: utils.keys().cloned().collect(), allow_field: true, allow_range: false };
  let mut body = if rng.chance(3, 4) { gen_targeted(h, &mut utils, rng) } else { rule::gen_rule(h, &cfg, 0, rng) };
  if !h.fields.is_empty() && !h.patterns.is_empty() && rng.chance(1, 5) {
    // an ancestor (or descendant) search restricted to a field, with capturing sub-patterns: an ancestor that
    // matches the sub-rule but holds the node under another field must leave no bindings behind
    let sub = if rng.chance(1, 2) {
      R::Pattern(rng.pick(&h.patterns).clone())
    } else {
      R::Any(vec![R::Pattern(rng.pick(&h.patterns).clone()), R::Pattern(rng.pick(&h.patterns).clone())])
    };
    let f = Some(rng.pick(&h.fields).clone());
    let stop = if rng.chance(2, 3) { rule::Stop::End } else { rule::Stop::Rule(Box::new(R::Kind(rng.pick(&h.kinds).clone()))) };
    body = if rng.chance(3, 4) { R::Inside(Box::new(sub), stop, f) } else { R::Has(Box::new(sub), stop, f) };
  }
  strip_of_rule_patterns(&mut body);
  let p0 = match anchor {
    Some(a) => a.to_string(),
    None => {
      // the anchor must give the rule a kind: a bare hole does not
      let mut p = rng.pick(&h.patterns).clone();
      for _ in 0..5 {
        if !p.trim_start_matches('$').chars().all(|c| c.is_ascii_uppercase() || c == '_' || c.is_ascii_digit()) {
          break;
        }
        p = rng.pick(&h.patterns).clone();
      }
      p
    }
  };
  let mut parts = vec![R::Pattern(p0)];
  match body {
    R::Obj(v) => {
      for x in v {
        if !parts.iter().any(|p| p.key() == x.key()) {
          parts.push(x);
        }
      }
    }
    R::Pattern(_) => parts.push(R::All(vec![body])),
    x => parts.push(x),
  }
  let vars_of = |rs: &[&R]| -> Vec<String> {
    let re = regex::Regex::new(r"(^|[^$])\$([A-Z][A-Z0-9_]*)").unwrap();
    let mut out = std::collections::BTreeSet::new();
    for r in rs {
      r.walk(&mut |x| {
        if let R::Pattern(p) = x {
          for c in re.captures_iter(p) {
            out.insert(c[2].to_string());
          }
        }
      });
    }
    out.into_iter().collect()
  };
  let mut constraints = BTreeMap::new();
  let top_vars = vars_of(&[&parts[0]]);
  if rng.chance(1, 3) && !top_vars.is_empty() {
    let var = rng.pick(&top_vars).to_string();
    let c = if rng.chance(1, 2) { R::Kind(rng.pick(&h.kinds).clone()) } else { R::Regex(format!("^{}$", rule::regex_escape(rng.pick(&h.idents).as_str()))) };
    constraints.insert(var, c);
  }
  let mut global = None;
  if rng.chance(1, 4) && !parts.iter().any(|p| p.key() == "matches") {
    let gp = rng.pick(&h.patterns).clone();
    let mut gc = BTreeMap::new();
    let gvars = vars_of(&[&R::Pattern(gp.clone())]);
    if rng.chance(2, 3) && !gvars.is_empty() {
      gc.insert(rng.pick(&gvars).to_string(), R::Regex(format!("^{}$", rule::regex_escape(rng.pick(&h.idents).as_str()))));
    }
    global = Some(("G0".to_string(), R::Pattern(gp), gc));
    // the reference to the (possibly constrained) global sits on the node itself or behind a relation /
    // in an alternative, where a failed candidate must leave no trace for the next one
    let m = R::Matches("G0".into());
    let placed = match rng.below(8) {
      0 | 1 => m.clone(),
      2 | 3 => R::Has(Box::new(m.clone()), if rng.chance(1, 2) { rule::Stop::End } else { rule::Stop::Neighbor }, None),
      4 => R::Any(vec![m.clone(), R::Kind(rng.pick(&h.kinds).clone())]),
      5 => R::Inside(Box::new(m.clone()), rule::Stop::End, None),
      6 => R::Follows(Box::new(m.clone()), rule::Stop::End),
      _ => R::Precedes(Box::new(m.clone()), rule::Stop::End),
    };
    if parts.iter().any(|p| p.key() == placed.key()) {
      parts.push(m);
    } else {
      parts.push(placed);
    }
  }
  Doc4 { rule: R::Obj(parts), utils, constraints, global }
}

/// nthChild.ofRule with capturing patterns is C05's known shared-env defect: keep ofRule pattern-free here
fn strip_of_rule_patterns(r: &mut R) {
  match r {
    R::Nth { of, .. } => {
      if let Some(o) = of {
        let mut has_pat = false;
        o.walk(&mut |x| has_pat |= !matches!(x, R::Kind(_) | R::Regex(_)));
        if has_pat {
          *of = None;
        }
      }
    }
    R::Obj(v) | R::All(v) | R::Any(v) => v.iter_mut().for_each(strip_of_rule_patterns),
    R::Not(x) => strip_of_rule_patterns(x),
    R::Inside(x, s, _) | R::Has(x, s, _) | R::Precedes(x, s) | R::Follows(x, s) => {
      strip_of_rule_patterns(x);
      if let rule::Stop::Rule(st) = s {
        strip_of_rule_patterns(st);
      }
    }
    _ => {}
  }
}

fn permutations(n: usize, cap: usize, rng: &mut Rng) -> Vec<Vec<usize>> {
  let mut out = vec![];
  if n <= 4 && cap >= 24 {
    fn rec(cur: &mut Vec<usize>, used: &mut Vec<bool>, n: usize, out: &mut Vec<Vec<usize>>) {
      if cur.len() == n {
        out.push(cur.clone());
        return;
      }
      for i in 0..n {
        if !used[i] {
          used[i] = true;
          cur.push(i);
          rec(cur, used, n, out);
          cur.pop();
          used[i] = false;
        }
      }
    }
    rec(&mut vec![], &mut vec![false; n], n, &mut out);
    return out;
  }
  for _ in 0..cap {
    let mut p: Vec<usize> = (0..n).collect();
    rng.shuffle(&mut p);
    out.push(p);
  }
  out
}

// ------------------------------------------------------------------ repeated hole, independent oracle
//
// The rule-level reference above delegates "is this occurrence the same code as the earlier binding" to the
// implementation (it runs the real pattern with the accumulated environment).  This part judges exactly that
// clause independently: two named descendants of a host node are abstracted by the SAME variable, then one of
// them is replaced by other code of the same kind (the other occurrence's text, a truncation at a child
// boundary -- `if (x) s else t` -> `if (x) s`, `new Foo()` -> `new Foo` --, or another node of the file) and
// the host is re-parsed.  Whenever the pattern matches, the two occurrences must spell the same token sequence.

fn leaf_tokens(n: &N) -> Vec<String> {
  n.dfs().filter(|x| x.children().len() == 0).map(|x| x.text().to_string()).filter(|t| !t.is_empty()).collect()
}

fn node_at<'a>(root: &N<'a>, start: usize, end: usize, kind: u16) -> Option<N<'a>> {
  root.dfs().find(|x| x.range().start == start && x.range().end == end && x.kind_id() == kind)
}

/// one (host, first, second, replaced position, replacement text) case; returns Some(true) if judged
fn repeated_case(lang: SupportLang, fname: &str, host_text: &str, host_kind: u16, spans: [(usize, usize); 2], kind: u16, texts: [&str; 2], rep: &mut Report) -> Option<bool> {
  let [(a0, a1), (b0, b1)] = spans;
  let pattern = format!("{}$RPT{}$RPT{}", &host_text[..a0], &host_text[a1..b0], &host_text[b1..]);
  let pat = ast_grep_core::Pattern::try_new(&pattern, lang).ok()?;
  {
    // premise: the pattern text parses cleanly and really contains the variable twice (an ERROR pattern
    // may have lost an occurrence in error recovery; then nothing is claimed about it)
    let processed = lang.pre_process_pattern(&pattern);
    let pg = lang.ast_grep(&*processed);
    let pr = pg.root();
    let mv = format!("{}RPT", lang.expando_char());
    if crate::util::has_error_or_missing(&pr) || pr.dfs().filter(|x| x.children().len() == 0 && x.text() == mv.as_str()).count() != 2 {
      return None;
    }
  }
  let s2 = format!("{}{}{}{}{}", &host_text[..a0], texts[0], &host_text[a1..b0], texts[1], &host_text[b1..]);
  let grep = lang.ast_grep(&s2);
  let root = grep.root();
  let h2 = node_at(&root, 0, s2.len(), host_kind)?;
  if crate::util::has_error_or_missing(&h2) {
    return None;
  }
  let na = node_at(&root, a0, a0 + texts[0].len(), kind)?;
  let nb0 = a0 + texts[0].len() + (b0 - a1);
  let nb = node_at(&root, nb0, nb0 + texts[1].len(), kind)?;
  let replay = json!({"monitor":"c04","mode":"repeated","lang":corpus::lang_name(lang),"file":fname,"pattern":pattern,"source":s2,"first":[na.range().start,na.range().end],"second":[nb.range().start,nb.range().end]});
  let got = match guarded(|| pat.match_node(h2.clone()).map(|m| m.get_env().get_match("RPT").map(|x| (x.range().start, x.range().end)))) {
    Ok(g) => g,
    Err(p) => {
      rep.violation(&format!("C04/panic/{}", p.site()), &format!("repeated hole: panic at {}: {}", p.location, p.message), replay);
      return Some(false);
    }
  };
  rep.evaluations += 1;
  let same_text = texts[0] == texts[1];
  let ta = leaf_tokens(&na);
  let tb = leaf_tokens(&nb);
  if let Some(bound) = &got {
    if ta != tb {
      rep.violation("C04/repeated-var/different-code-accepted", &format!("pattern `{}` matches `{}`: $RPT stands for `{}` and for `{}`", clip(&pattern, 120), clip(&s2, 120), clip(&na.text(), 50), clip(&nb.text(), 50)), replay.clone());
    }
    if let Some(r) = bound {
      // the bound node is one of the occurrences, or a node wrapping just it (PHP `$name`: the sigil belongs to the variable node)
      let wraps = |n: &N| r.0 <= n.range().start && n.range().end <= r.1 && (r.1 - r.0) <= n.range().len() + 2;
      if !wraps(&na) && !wraps(&nb) {
        rep.violation("C04/repeated-var/bound-elsewhere", &format!("pattern `{}` on `{}`: $RPT bound to {:?}, the occurrences are {:?} and {:?}", clip(&pattern, 120), clip(&s2, 120), r, na.range(), nb.range()), replay.clone());
      }
    }
  }
  if ta != tb {
    rep.count("repeated.differing_pairs", 1);
    let (ca, cb) = (na.children().len(), nb.children().len());
    if ca != cb && na.children().zip(nb.children()).all(|(x, y)| x.kind_id() == y.kind_id() && x.text() == y.text()) {
      rep.count("repeated.strict_prefix_pairs", 1);
    }
  }
  Some(same_text && got.is_some())
}

fn named_leaf_tokens(n: &N) -> Vec<String> {
  n.dfs().filter(|x| x.is_named() && x.children().len() == 0).map(|x| x.text().to_string()).collect()
}

/// `$$$RPT` written twice: the contents of two bracketed lists of one kind (arguments, arrays, parameter
/// lists ...) are abstracted by the same ellipsis, then one list is emptied / shortened / replaced and the host
/// re-parsed.  Whenever the pattern matches, both lists must hold the same named leaves (separators aside).
pub fn repeated_multi_source(lang: SupportLang, fname: &str, src: &str, n_hosts: usize, rng: &mut crate::rng::Rng, rep: &mut Report) {
  let grep = lang.ast_grep(src);
  let root = grep.root();
  let bracketed = |d: &N| -> Option<(usize, usize)> {
    let kids: Vec<N> = d.children().collect();
    if kids.len() < 2 || kids[0].is_named() || kids[kids.len() - 1].is_named() || kids[0].range().is_empty() || kids[kids.len() - 1].range().is_empty() {
      return None;
    }
    Some((kids[0].range().end, kids[kids.len() - 1].range().start))
  };
  let mut hosts: Vec<N> = root.dfs().filter(|n| n.is_named() && n.range().len() >= 6 && n.range().len() <= 300 && !crate::util::has_error_or_missing(n)).collect();
  rng.shuffle(&mut hosts);
  let mut done = 0;
  for host in hosts.into_iter().take(n_hosts * 8) {
    if done >= n_hosts {
      break;
    }
    let hs = host.range().start;
    let lists: Vec<(N, (usize, usize))> = host.dfs().skip(1).filter(|d| d.is_named()).filter_map(|d| bracketed(&d).map(|b| (d, b))).collect();
    let mut pair = None;
    'find: for (i, (d1, b1)) in lists.iter().enumerate() {
      for (d2, b2) in lists.iter().skip(i + 1) {
        if d1.kind_id() == d2.kind_id() && d1.range().end <= d2.range().start {
          pair = Some((d1.clone(), *b1, d2.clone(), *b2));
          break 'find;
        }
      }
    }
    let Some((d1, b1, d2, b2)) = pair else { continue };
    let host_text = host.text().to_string();
    let (a0, a1, c0, c1) = (b1.0 - hs, b1.1 - hs, b2.0 - hs, b2.1 - hs);
    let pattern = format!("{}$$$RPT{}$$$RPT{}", &host_text[..a0], &host_text[a1..c0], &host_text[c1..]);
    let Ok(pat) = ast_grep_core::Pattern::try_new(&pattern, lang) else { continue };
    {
      let processed = lang.pre_process_pattern(&pattern);
      let pg = lang.ast_grep(&*processed);
      let pr = pg.root();
      let e = lang.expando_char();
      let mv = format!("{e}{e}{e}RPT");
      if crate::util::has_error_or_missing(&pr) || pr.dfs().filter(|x| x.children().len() == 0 && x.text() == mv.as_str()).count() != 2 {
        continue;
      }
    }
    let (in1, in2) = (host_text[a0..a1].to_string(), host_text[c0..c1].to_string());
    // list contents to try: empty, the other list, a list with its last / first element dropped
    let mut contents: Vec<String> = vec![String::new(), in1.clone(), in2.clone()];
    for d in [&d1, &d2] {
      let named: Vec<N> = d.children().filter(|c| c.is_named()).collect();
      if named.len() >= 2 {
        contents.push(src[named[0].range().start..named[named.len() - 2].range().end].to_string());
        contents.push(src[named[1].range().start..named[named.len() - 1].range().end].to_string());
        contents.push(named[0].text().to_string());
      }
    }
    contents.sort();
    contents.dedup();
    let mut judged = false;
    for x in contents.iter().take(8) {
      for y in contents.iter().take(8) {
        let s2 = format!("{}{}{}{}{}", &host_text[..a0], x, &host_text[a1..c0], y, &host_text[c1..]);
        let g2 = lang.ast_grep(&s2);
        let r2 = g2.root();
        let Some(h2) = node_at(&r2, 0, s2.len(), host.kind_id()) else { continue };
        if crate::util::has_error_or_missing(&h2) {
          continue;
        }
        // the two lists after re-parsing: same kind, starting where the originals started
        let la = r2.dfs().find(|n| n.kind_id() == d1.kind_id() && n.range().start == d1.range().start - hs);
        let shift = x.len() as isize - (a1 - a0) as isize;
        let lb_start = (d2.range().start - hs) as isize + shift;
        let lb = r2.dfs().find(|n| n.kind_id() == d2.kind_id() && n.range().start as isize == lb_start);
        let (Some(la), Some(lb)) = (la, lb) else { continue };
        let replay = json!({"monitor":"c04","mode":"repeated","lang":corpus::lang_name(lang),"file":fname,"pattern":pattern,"source":s2,"first":[la.range().start,la.range().end],"second":[lb.range().start,lb.range().end]});
        let got = match guarded(|| pat.match_node(h2.clone()).is_some()) {
          Ok(g) => g,
          Err(p) => {
            rep.violation(&format!("C04/panic/{}", p.site()), &format!("repeated ellipsis: panic at {}: {}", p.location, p.message), replay);
            continue;
          }
        };
        rep.evaluations += 1;
        judged = true;
        let (ta, tb) = (named_leaf_tokens(&la), named_leaf_tokens(&lb));
        // identical text is identical code even where the grammar parses it differently by context
        // (Haskell patterns vs expressions): only lists that also differ as text are claimed to differ
        let squeeze = |t: &str| t.chars().filter(|c| !c.is_whitespace()).collect::<String>();
        if ta != tb && squeeze(&la.text()) != squeeze(&lb.text()) {
          rep.count("repeated.multi_differing_pairs", 1);
          if ta.is_empty() || tb.is_empty() {
            rep.count("repeated.multi_empty_vs_nonempty", 1);
          }
          if got {
            rep.violation("C04/repeated-ellipsis/different-code-accepted", &format!("pattern `{}` matches `{}`: $$$RPT stands for `{}` and for `{}`", clip(&pattern, 120), clip(&s2, 120), clip(&la.text(), 50), clip(&lb.text(), 50)), replay);
          }
        }
      }
    }
    if judged {
      done += 1;
      rep.count("repeated.multi_hosts", 1);
      rep.nontrivial(hash_parts(&["repeated-multi", fname, &host_text]));
    }
  }
}

pub fn repeated_source(lang: SupportLang, fname: &str, src: &str, n_hosts: usize, rng: &mut crate::rng::Rng, rep: &mut Report) {
  let grep = lang.ast_grep(src);
  let root = grep.root();
  let mut hosts: Vec<N> = root.dfs().filter(|n| n.is_named() && n.range().len() >= 5 && n.range().len() <= 400 && n.children().len() >= 2 && !crate::util::has_error_or_missing(n)).collect();
  rng.shuffle(&mut hosts);
  let mut done = 0;
  for host in hosts.into_iter().take(n_hosts * 6) {
    if done >= n_hosts {
      break;
    }
    let hs = host.range().start;
    let ds: Vec<N> = host.dfs().skip(1).filter(|d| d.is_named() && !d.range().is_empty()).collect();
    // pairs of non-overlapping named descendants of one kind; prefer kinds with children
    let mut pairs = vec![];
    for (i, d1) in ds.iter().enumerate() {
      for d2 in ds.iter().skip(i + 1) {
        if d2.kind_id() == d1.kind_id() && d1.range().end <= d2.range().start {
          pairs.push((d1.clone(), d2.clone()));
        }
      }
      if pairs.len() > 60 {
        break;
      }
    }
    if pairs.is_empty() {
      continue;
    }
    pairs.sort_by_key(|(d, _)| std::cmp::Reverse(d.children().len().min(3)));
    let pick = rng.below(pairs.len().min(6));
    let (d1, d2) = pairs[pick].clone();
    let host_text = host.text().to_string();
    let spans = [(d1.range().start - hs, d1.range().end - hs), (d2.range().start - hs, d2.range().end - hs)];
    let (t1, t2) = (d1.text().to_string(), d2.text().to_string());
    // premise: with both occurrences spelled alike the pattern matches the host (same tree shape)
    let base = repeated_case(lang, fname, &host_text, host.kind_id(), spans, d1.kind_id(), [&t1, &t1], rep);
    if base != Some(true) {
      rep.count("repeated.premise_not_met", 1);
      continue;
    }
    done += 1;
    rep.count("repeated.hosts", 1);
    let mut variants: Vec<String> = vec![t2.clone()];
    for keep in [&d1, &d2] {
      let kids: Vec<N> = keep.children().collect();
      for k in 0..kids.len().saturating_sub(1) {
        variants.push(src[keep.range().start..kids[k].range().end].to_string());
      }
      // and the tail: drop leading children
      for k in 1..kids.len().min(3) {
        variants.push(src[kids[k].range().start..keep.range().end].to_string());
      }
    }
    let others: Vec<N> = root.dfs().filter(|x| x.kind_id() == d1.kind_id() && x.range().len() <= 200).collect();
    for _ in 0..3 {
      if !others.is_empty() {
        variants.push(rng.pick(&others).text().to_string());
      }
    }
    variants.sort();
    variants.dedup();
    let mut differing = false;
    for v in variants.iter().take(14) {
      for order in 0..2 {
        let texts: [&str; 2] = if order == 0 { [&t1, v] } else { [v, &t2] };
        if repeated_case(lang, fname, &host_text, host.kind_id(), spans, d1.kind_id(), texts, rep).is_some() && texts[0] != texts[1] {
          differing = true;
        }
      }
    }
    if differing {
      rep.nontrivial(hash_parts(&["repeated", fname, &host_text, &t1, &t2]));
    }
  }
}

pub fn run(ctx: &Ctx, rep: &mut Report) {
  if let Some(r) = &ctx.replay {
    let lang = crate::util::lang_of(r["lang"].as_str().unwrap());
    if r["mode"].as_str() == Some("repeated") {
      let pattern = r["pattern"].as_str().unwrap();
      let s2 = r["source"].as_str().unwrap();
      let grep = lang.ast_grep(s2);
      let root = grep.root();
      let pat = ast_grep_core::Pattern::try_new(pattern, lang).expect("pattern");
      let f = (r["first"][0].as_u64().unwrap() as usize, r["first"][1].as_u64().unwrap() as usize);
      let g = (r["second"][0].as_u64().unwrap() as usize, r["second"][1].as_u64().unwrap() as usize);
      let find = |(a, b): (usize, usize)| root.dfs().find(|x| x.is_named() && x.range().start == a && x.range().end == b);
      rep.evaluations += 1;
      if let (Some(na), Some(nb)) = (find(f), find(g)) {
        let matched = root.dfs().any(|h| h.range().start == 0 && h.range().end == s2.len() && pat.match_node(h.clone()).is_some());
        if matched && pattern.contains("$$$RPT") && named_leaf_tokens(&na) != named_leaf_tokens(&nb) {
          rep.violation("C04/repeated-ellipsis/different-code-accepted", &format!("pattern `{}` matches `{}`", clip(pattern, 120), clip(s2, 120)), r.clone());
        } else if matched && !pattern.contains("$$$RPT") && leaf_tokens(&na) != leaf_tokens(&nb) {
          rep.violation("C04/repeated-var/different-code-accepted", &format!("pattern `{}` matches `{}`", clip(pattern, 120), clip(s2, 120)), r.clone());
        }
      }
      return;
    }
    let Some(doc) = Doc4::from_json(&r["doc"]) else {
      rep.notes.push("replay: cannot read doc".into());
      return;
    };
    check_doc(lang, "replay", r["source"].as_str().unwrap(), &doc, rep);
    return;
  }
  let mut rng = ctx.rng("c04");
  // (a) synthetic JavaScript sibling lists with decoys, permuted
  let n_docs = ctx.budget(40000, 400000);
  let perms = if ctx.thorough { 24 } else { 5 };
  let lang = SupportLang::JavaScript;
  for d in 0..n_docs {
    let (stmts, h) = synth_js(&mut rng);
    let doc = gen_doc(&h, None, &mut rng, if ctx.thorough { 4 } else { 3 });
    let body = stmts.len() - 1;
    let mut any_t = false;
    let mut any_f = false;
    for p in permutations(body, perms, &mut rng) {
      let mut parts: Vec<&str> = p.iter().map(|i| stmts[*i].as_str()).collect();
      // the anchor statement `last();` is placed at a random position
      let at = rng.below(parts.len() + 1);
      parts.insert(at, "last();");
      let src = parts.join(if d % 2 == 0 { " " } else { "\n" });
      if let Some((t, f)) = check_doc(lang, "synthetic.js", &src, &doc, rep) {
        any_t |= t > 0;
        any_f |= f > 0;
      }
    }
    rep.count("docs", 1);
    if shared_names(&doc) && any_t && any_f {
      rep.nontrivial(hash_parts(&["synth", &doc.to_json().to_string(), &stmts.join("|")]));
    }
    if d < 3 {
      rep.sample(json!({"source": stmts.join(" "), "doc": doc.to_json()}));
    }
  }
  // (b) corpus excerpts with patterns cut from them, variables renamed to a small shared pool
  let files = corpus::shard(&corpus::load_all(), ctx.shard, ctx.nshards);
  let per_file = if ctx.thorough { 300 } else { 40 };
  for f in &files {
    let Some(text) = crate::mon::c05::clean_excerpt(f.lang, &f.text, 1800) else {
      rep.count("sources_skipped_zero_width", 1);
      continue;
    };
    let grep = f.lang.ast_grep(&text);
    let root = grep.root();
    let pats: Vec<String> = disjoint_patterns(&root, f.lang, 10, &mut rng)
      .into_iter()
      .map(|p| {
        let re1 = regex::Regex::new(r"\$\$\$W\d+").unwrap();
        let re2 = regex::Regex::new(r"\$P\d+V(\d+)").unwrap();
        let p = re1.replace_all(&p, "$$$$$$R").to_string();
        re2.replace_all(&p, |c: &regex::Captures| format!("${}", SHARED[c[1].parse::<usize>().unwrap_or(0) % 3])).to_string()
      })
      .filter(|p| ast_grep_core::Pattern::try_new(p, f.lang).is_ok())
      .collect();
    if pats.is_empty() {
      continue;
    }
    // (c) one variable for two occurrences, judged by token sequences
    repeated_source(f.lang, &f.name, &text, if ctx.thorough { 400 } else { 40 }, &mut rng, rep);
    repeated_multi_source(f.lang, &f.name, &text, if ctx.thorough { 200 } else { 25 }, &mut rng, rep);
    let h = rule::harvest(&root, &text, pats, crate::mon::c05::field_names(f.lang), &mut rng);
    for _ in 0..per_file {
      let doc = gen_doc(&h, None, &mut rng, 3);
      if let Some((t, fl)) = check_doc(f.lang, &f.name, &text, &doc, rep) {
        rep.count("docs", 1);
        rep.count(&format!("lang.{}", corpus::lang_name(f.lang)), 1);
        if shared_names(&doc) && t > 0 && fl > 0 {
          rep.nontrivial(hash_parts(&[&f.name, &doc.to_json().to_string()]));
        }
      }
    }
  }
}
