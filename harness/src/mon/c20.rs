//! C20 — uniform meta-variable syntax; exact small notations.
//! Bounded-exhaustive enumeration executed against the real code.
use crate::corpus;
use crate::rng::hash_str;
use crate::util::{guarded, N};
use crate::{Ctx, Report};
use ast_grep_config::{from_yaml_string, GlobalRules, RuleConfig};
use ast_grep_core::matcher::{MatcherExt, PatternNode};
use ast_grep_core::meta_var::MetaVariable;
use ast_grep_core::replacer::{Replacer, TemplateFix};
use ast_grep_core::{Language, Pattern};
use ast_grep_language::SupportLang;
use serde_json::json;

// ---------------------------------------------------------------- spellings

fn is_name(s: &str) -> bool {
  let mut cs = s.chars();
  match cs.next() {
    Some(c) if c.is_ascii_uppercase() || c == '_' => {}
    _ => return false,
  }
  cs.all(|c| c.is_ascii_uppercase() || c == '_' || c.is_ascii_digit())
}

/// the specification's reading of one whole string as a hole
pub fn spec_hole(s: &str) -> Option<MetaVariable> {
  spec_hole_with(s, '$', false)
}

/// `sigil` and `lax_ellipsis_name` exist only for the defect-emulation switches used to
/// attribute a deviation to a known finding; the verdict always uses ('$', false).
fn spec_hole_with(s: &str, sigil: char, lax_ellipsis_name: bool) -> Option<MetaVariable> {
  let k = s.chars().take_while(|c| *c == sigil).count();
  if k == 0 {
    return None;
  }
  let w = sigil.len_utf8();
  if k >= 3 {
    let rest = &s[3 * w..];
    if rest.is_empty() {
      return Some(MetaVariable::Multiple);
    }
    let ok = if lax_ellipsis_name {
      rest.chars().all(|c| c.is_ascii_uppercase() || c == '_' || c.is_ascii_digit())
    } else {
      is_name(rest)
    };
    if !ok {
      return None;
    }
    return Some(if rest.starts_with('_') {
      MetaVariable::Multiple
    } else {
      MetaVariable::MultiCapture(rest.to_string())
    });
  }
  let rest = &s[k * w..];
  if !is_name(rest) {
    return None;
  }
  let named = k == 1;
  Some(if rest.starts_with('_') {
    MetaVariable::Dropped(named)
  } else {
    MetaVariable::Capture(rest.to_string(), named)
  })
}

/// the documented pre-processing (a `$` run followed by [A-Z_], or a run of exactly three,
/// is rewritten with the language's expando character), written independently
fn emulate_expando(s: &str, expando: char) -> String {
  let cs: Vec<char> = s.chars().collect();
  let mut out = String::new();
  let mut i = 0;
  while i < cs.len() {
    if cs[i] != '$' {
      out.push(cs[i]);
      i += 1;
      continue;
    }
    let mut k = 0;
    while i + k < cs.len() && cs[i + k] == '$' {
      k += 1;
    }
    let next = cs.get(i + k);
    let replace = k == 3 || matches!(next, Some(c) if c.is_ascii_uppercase() || *c == '_');
    for _ in 0..k {
      out.push(if replace { expando } else { '$' });
    }
    i += k;
  }
  out
}

/// Which known defect, if any, explains `got` for the string `s`?
fn attribute(s: &str, expando: char, got: &Option<MetaVariable>) -> Option<String> {
  if &spec_hole_with(s, '$', true) == got {
    return Some("C20/spelling/ellipsis-digit-first".to_string());
  }
  if expando != '$' {
    let e = emulate_expando(s, expando);
    if &spec_hole_with(&e, expando, false) == got {
      return Some(format!("C20/spelling/expando-collision/expando={expando}"));
    }
    if &spec_hole_with(&e, expando, true) == got {
      return Some(format!("C20/spelling/expando-collision+ellipsis-digit-first/expando={expando}"));
    }
  }
  None
}

fn class(m: &Option<MetaVariable>) -> &'static str {
  match m {
    None => "none",
    Some(MetaVariable::Capture(_, true)) => "capture-named",
    Some(MetaVariable::Capture(_, false)) => "capture-any",
    Some(MetaVariable::Dropped(true)) => "dropped-named",
    Some(MetaVariable::Dropped(false)) => "dropped-any",
    Some(MetaVariable::Multiple) => "ellipsis",
    Some(MetaVariable::MultiCapture(_)) => "named-ellipsis",
  }
}

fn shape(s: &str) -> &'static str {
  let body = s.trim_start_matches('$');
  if !s.contains('$') {
    "sigil-free"
  } else if body.starts_with(|c: char| c.is_ascii_digit()) {
    "digit-first"
  } else if body.chars().any(|c| c.is_ascii_lowercase()) {
    "has-lower"
  } else if body.contains('$') {
    "inner-sigil"
  } else if body.starts_with('_') {
    "underscore-first"
  } else {
    "plain"
  }
}

fn spelling_sig(s: &str, expando: char, group: &str, got: &Option<MetaVariable>, want: &Option<MetaVariable>) -> String {
  if let Some(sig) = attribute(s, expando, got) {
    return sig;
  }
  if class(got) == class(want) {
    format!("C20/spelling/{group}/{}-name-mismatch/{}", class(want), shape(s))
  } else {
    format!("C20/spelling/{group}/{}->{}/{}", class(want), class(got), shape(s))
  }
}

fn enumerate(alpha: &[char], max_len: usize, mut f: impl FnMut(&str)) {
  let mut idx = vec![];
  let mut s = String::new();
  loop {
    // emit current
    s.clear();
    for i in &idx {
      s.push(alpha[*i]);
    }
    f(&s);
    // next: odometer over growing length
    let mut pos = idx.len();
    loop {
      if pos == 0 {
        idx = vec![0; idx.len() + 1];
        break;
      }
      pos -= 1;
      if idx[pos] + 1 < alpha.len() {
        idx[pos] += 1;
        for j in pos + 1..idx.len() {
          idx[j] = 0;
        }
        break;
      }
    }
    if idx.len() > max_len {
      return;
    }
  }
}

fn spellings(ctx: &Ctx, rep: &mut Report) {
  let alpha = ['$', 'A', 'B', 'a', 'z', '_', '1'];
  let max_len = if ctx.thorough { 7 } else { 5 };
  let langs = corpus::shard(&corpus::all_langs(), ctx.shard, ctx.nshards);
  for lang in langs {
    let lname = corpus::lang_name(lang);
    let group = format!("expando={}", lang.expando_char());
    let mut n = 0u64;
    enumerate(&alpha, max_len, |s| {
      if s.is_empty() {
        return;
      }
      n += 1;
      let got = guarded(|| lang.extract_meta_var(&lang.pre_process_pattern(s)));
      let want = spec_hole(s);
      match got {
        Ok(got) => {
          if got != want {
            let sig = spelling_sig(s, lang.expando_char(), &group, &got, &want);
            rep.violation(
              &sig,
              &format!("{lname}: `{s}` should be {:?} but is {:?}", want, got),
              json!({"monitor":"c20","part":"spelling","lang":lname,"s":s}),
            );
          }
        }
        Err(p) => rep.violation(&format!("C20/spelling/panic/{}", p.site()), &p.message, json!({"monitor":"c20","part":"spelling","lang":lname,"s":s})),
      }
      if s.contains('$') {
        rep.nontrivial(hash_str(&format!("sp/{lname}/{s}")));
      }
    });
    rep.evaluations += n;
    rep.count("spelling_strings", n);
    rep.count("exhaustive_spaces", 1);
  }
}

// ---------------------------------------------------------------- end-to-end carriers

pub fn carrier(lang: SupportLang) -> (&'static str, &'static str, &'static str, &'static str) {
  // (pattern carrier with § for the hole, source with one argument, two arguments, none)
  use SupportLang::*;
  match lang {
    Bash => ("echo §", "echo 1", "echo 1 2", "echo"),
    C | Cpp | CSharp | Java | Php => ("foo(§);", "foo(1);", "foo(1, 2);", "foo();"),
    Css => ("a { margin: § }", "a { margin: 1px }", "a { margin: 1px 2px }", "a { margin: }"),
    Haskell => ("f = [§]", "f = [1]", "f = [1, 2]", "f = []"),
    Html => ("<div>§</div>", "<div><b></b></div>", "<div><b></b><i></i></div>", "<div></div>"),
    Json | Yaml => ("[§]", "[1]", "[1, 2]", "[]"),
    _ => ("foo(§)", "foo(1)", "foo(1, 2)", "foo()"),
  }
}

fn holes(p: &PatternNode, out: &mut Vec<MetaVariable>) {
  match p {
    PatternNode::MetaVar { meta_var } => out.push(meta_var.clone()),
    PatternNode::Terminal { .. } => {}
    PatternNode::Internal { children, .. } => children.iter().for_each(|c| holes(c, out)),
  }
}

fn carriers(ctx: &Ctx, rep: &mut Report) {
  let langs = corpus::shard(&corpus::all_langs(), ctx.shard, ctx.nshards);
  for lang in langs {
    let lname = corpus::lang_name(lang);
    let (pat, one, two, zero) = carrier(lang);
    let group = format!("expando={}", lang.expando_char());
    for name in ["A", "AB", "X_Y"] {
      let spell: Vec<(String, MetaVariable)> = vec![
        (format!("${name}"), MetaVariable::Capture(name.into(), true)),
        (format!("$${name}"), MetaVariable::Capture(name.into(), false)),
        ("$_".into(), MetaVariable::Dropped(true)),
        ("$$_".into(), MetaVariable::Dropped(false)),
        ("$$$".into(), MetaVariable::Multiple),
        ("$$$_".into(), MetaVariable::Multiple),
        (format!("$$${name}"), MetaVariable::MultiCapture(name.into())),
      ];
      for (sp, want) in spell {
        rep.evaluations += 1;
        rep.nontrivial(hash_str(&format!("carrier/{lname}/{sp}")));
        let text = pat.replace('§', &sp);
        let replay = json!({"monitor":"c20","part":"carrier","lang":lname,"pattern":text});
        let r = guarded(|| {
          let p = match Pattern::try_new(&text, lang) {
            Ok(p) => p,
            Err(e) => return Err(format!("pattern rejected: {e}")),
          };
          let mut hs = vec![];
          holes(&p.node, &mut hs);
          if hs.len() != 1 || hs[0] != want {
            return Err(format!("holes {:?}, expected exactly [{:?}]", hs, want));
          }
          // behaviour on the three sources
          let m = |src: &str| -> Option<(Option<String>, Vec<String>)> {
            let g = lang.ast_grep(src);
            let nm = g.root().find(&p)?;
            let env = nm.get_env();
            let single = match &want {
              MetaVariable::Capture(n, _) => env.get_match(n).map(|x| x.text().to_string()),
              _ => None,
            };
            let multi = match &want {
              MetaVariable::MultiCapture(n) => env.get_multiple_matches(n).iter().filter(|x| x.is_named()).map(|x| x.text().to_string()).collect(),
              _ => vec![],
            };
            let exposed: Vec<String> = env.get_matched_variables().map(|v| format!("{v:?}")).collect();
            if matches!(want, MetaVariable::Dropped(_) | MetaVariable::Multiple) && !exposed.is_empty() {
              return Some((Some(format!("EXPOSED {exposed:?}")), vec![]));
            }
            Some((single, multi))
          };
          let (m1, m2, m0) = (m(one), m(two), m(zero));
          match &want {
            MetaVariable::Capture(..) | MetaVariable::Dropped(_) => {
              if m1.is_none() {
                return Err(format!("single hole does not match `{one}`"));
              }
              if m2.is_some() && lang != SupportLang::Css && lang != SupportLang::Bash && lang != SupportLang::Haskell {
                // a single hole must not absorb two arguments (languages where two
                // words form one node are exempt)
                return Err(format!("single hole matches two arguments `{two}`"));
              }
              if let (MetaVariable::Capture(..), Some((s, _))) = (&want, &m1) {
                if s.is_none() {
                  return Err("capturing hole exposes no binding".into());
                }
              }
              if let Some((Some(s), _)) = &m1 {
                if s.starts_with("EXPOSED") {
                  return Err(format!("non-capturing hole exposes variables: {s}"));
                }
              }
            }
            MetaVariable::Multiple | MetaVariable::MultiCapture(_) => {
              if m1.is_none() || m2.is_none() {
                return Err(format!("ellipsis does not match one/two arguments ({:?},{:?})", m1.is_some(), m2.is_some()));
              }
              if m0.is_none() && !matches!(lang, SupportLang::Css | SupportLang::Bash | SupportLang::Haskell) {
                return Err(format!("ellipsis does not match zero arguments `{zero}`"));
              }
              if let MetaVariable::MultiCapture(_) = &want {
                let l2 = m2.as_ref().map(|x| x.1.len()).unwrap_or(0);
                if l2 < 2 && !matches!(lang, SupportLang::Css | SupportLang::Bash | SupportLang::Haskell) {
                  return Err(format!("named ellipsis exposes {l2} named nodes for two arguments"));
                }
              }
              if let Some((Some(s), _)) = &m2 {
                if s.starts_with("EXPOSED") {
                  return Err(format!("anonymous ellipsis exposes variables: {s}"));
                }
              }
            }
          }
          Ok(())
        });
        match r {
          Ok(Ok(())) => {}
          Ok(Err(e)) => rep.violation(&format!("C20/carrier/{group}/{}", class(&Some(want.clone()))), &format!("{lname}: pattern `{text}`: {e}"), replay),
          Err(p) => rep.violation(&format!("C20/carrier/panic/{}", p.site()), &p.message, replay),
        }
      }
    }
    rep.count("carrier_langs", 1);
  }
}

// ---------------------------------------------------------------- nthChild An+B

/// strict CSS An+B (no odd/even): returns (A, B)
pub fn parse_strict_anb(s: &str) -> Option<(i64, i64)> {
  let b = s.as_bytes();
  let mut i = 0;
  let mut sign = 1i64;
  if i < b.len() && (b[i] == b'+' || b[i] == b'-') {
    if b[i] == b'-' {
      sign = -1;
    }
    i += 1;
  }
  let ds = i;
  while i < b.len() && b[i].is_ascii_digit() {
    i += 1;
  }
  let digits = &s[ds..i];
  if i == b.len() {
    // plain integer
    if digits.is_empty() {
      return None;
    }
    return Some((0, sign * digits.parse::<i64>().ok()?));
  }
  if b[i] != b'n' {
    return None;
  }
  let a = if digits.is_empty() { sign } else { sign * digits.parse::<i64>().ok()? };
  i += 1;
  if i == b.len() {
    return Some((a, 0));
  }
  while i < b.len() && b[i] == b' ' {
    i += 1;
  }
  if i == b.len() || (b[i] != b'+' && b[i] != b'-') {
    return None;
  }
  let bsign = if b[i] == b'-' { -1 } else { 1 };
  i += 1;
  while i < b.len() && b[i] == b' ' {
    i += 1;
  }
  let ds = i;
  while i < b.len() && b[i].is_ascii_digit() {
    i += 1;
  }
  if ds == i || i != b.len() {
    return None;
  }
  Some((a, bsign * s[ds..i].parse::<i64>().ok()?))
}

fn selects(a: i64, b: i64, i: i64) -> bool {
  if a == 0 {
    return i == b;
  }
  let d = i - b;
  d % a == 0 && d / a >= 0
}

fn load_rule(yaml: &str) -> Result<RuleConfig<SupportLang>, String> {
  let globals = GlobalRules::default();
  match from_yaml_string::<SupportLang>(yaml, &globals) {
    Ok(mut v) if v.len() == 1 => Ok(v.remove(0)),
    Ok(v) => Err(format!("{} documents", v.len())),
    Err(e) => Err(format!("{e:#}")),
  }
}

fn nth_child(ctx: &Ctx, rep: &mut Report) {
  let alpha = ['n', '+', '-', '0', '1', '2', '3', ' '];
  let max_len = if ctx.thorough { 7 } else { 6 };
  let src = "[e1, e2, e3, e4, e5, e6, e7, e8, e9, e10, e11, e12]";
  let lang = SupportLang::JavaScript;
  let grep = lang.ast_grep(src);
  let arr = grep.root().dfs().find(|n| n.kind() == "array").expect("array");
  let elems: Vec<N> = arr.children().filter(|c| c.is_named()).collect();
  assert_eq!(elems.len(), 12);
  let mut all = vec![];
  enumerate(&alpha, max_len, |s| {
    if parse_strict_anb(s).is_some() {
      all.push(s.to_string());
    }
  });
  let mine = corpus::shard(&all, ctx.shard, ctx.nshards);
  for s in mine {
    let (a, b) = parse_strict_anb(&s).unwrap();
    for reverse in [false, true] {
      rep.evaluations += 1;
      rep.nontrivial(hash_str(&format!("nth/{s}/{reverse}")));
      let yaml = format!(
        "id: t\nlanguage: JavaScript\nrule:\n  kind: identifier\n  nthChild:\n    position: '{s}'\n    reverse: {reverse}\n"
      );
      let replay = json!({"monitor":"c20","part":"nth","s":s,"reverse":reverse});
      let r = guarded(|| {
        let rule = load_rule(&yaml)?;
        let got: Vec<usize> = elems
          .iter()
          .enumerate()
          .filter(|(_, e)| rule.matcher.match_node((*e).clone()).is_some())
          .map(|(i, _)| i + 1)
          .collect();
        let want: Vec<usize> = (1..=12usize)
          .filter(|i| {
            let idx = if reverse { 13 - *i } else { *i } as i64;
            selects(a, b, idx)
          })
          .collect();
        if got != want {
          return Err(format!("selects {:?}, An+B with A={a} B={b} selects {:?}", got, want));
        }
        Ok(())
      });
      let cls = if a == 0 { "integer" } else if a < 0 { "negative-step" } else { "positive-step" };
      match r {
        Ok(Ok(())) => {}
        Ok(Err(e)) => {
          let kind = if e.contains("selects") { "selection" } else { "rejected" };
          rep.violation(&format!("C20/nthChild/{kind}/{cls}{}", if reverse { "/reverse" } else { "" }), &format!("nthChild `{s}` reverse={reverse}: {e}"), replay)
        }
        Err(p) => rep.violation(&format!("C20/nthChild/panic/{}", p.site()), &format!("nthChild `{s}`: {}", p.message), replay),
      }
    }
  }
  rep.count("nth_formulas", all.len() as u64);
  rep.count("exhaustive_spaces", 1);
}

// ---------------------------------------------------------------- substring

fn py_slice(chars: &[char], start: Option<i64>, end: Option<i64>) -> String {
  let len = chars.len() as i64;
  let norm = |v: i64| -> i64 {
    if v < 0 {
      (len + v).max(0)
    } else {
      v.min(len)
    }
  };
  let s = start.map(norm).unwrap_or(0);
  let e = end.map(norm).unwrap_or(len);
  if s >= e {
    String::new()
  } else {
    chars[s as usize..e as usize].iter().collect()
  }
}

fn substring(ctx: &Ctx, rep: &mut Report) {
  let alpha = ['a', 'é', '🦀'];
  let max_len = if ctx.thorough { 6 } else { 5 };
  let mut texts = vec![];
  enumerate(&alpha, max_len, |s| {
    if !s.is_empty() {
      texts.push(s.to_string());
    }
  });
  let lang = SupportLang::JavaScript;
  let bounds: Vec<Option<i64>> = std::iter::once(None).chain((-7..=7).map(Some)).collect();
  let mut combos = vec![];
  for s in &bounds {
    for e in &bounds {
      combos.push((*s, *e));
    }
  }
  let mine = corpus::shard(&combos, ctx.shard, ctx.nshards);
  // pre-parse all texts once
  let docs: Vec<_> = texts.iter().map(|t| (t.clone(), lang.ast_grep(format!("f(\"{t}\")")))).collect();
  for (s, e) in mine {
    let mut y = String::from("id: t\nlanguage: JavaScript\nrule: {kind: string_fragment, pattern: $A}\ntransform:\n  B:\n    substring:\n      source: $A\n");
    if let Some(s) = s {
      y.push_str(&format!("      startChar: {s}\n"));
    }
    if let Some(e) = e {
      y.push_str(&format!("      endChar: {e}\n"));
    }
    let rule = match load_rule(&y) {
      Ok(r) => r,
      Err(er) => {
        rep.violation("C20/substring/rejected", &format!("rule rejected: {er}"), json!({"monitor":"c20","part":"substring","start":s,"end":e,"text":"a"}));
        continue;
      }
    };
    for (t, doc) in &docs {
      rep.evaluations += 1;
      let chars: Vec<char> = t.chars().collect();
      let out_of_range = s.map(|v| v < 0 || v > chars.len() as i64).unwrap_or(false) || e.map(|v| v < 0 || v > chars.len() as i64).unwrap_or(false);
      if out_of_range {
        rep.nontrivial(hash_str(&format!("sub/{t}/{s:?}/{e:?}")));
      }
      let replay = json!({"monitor":"c20","part":"substring","start":s,"end":e,"text":t});
      let r = guarded(|| {
        let frag = doc.root().dfs().find(|n| n.kind() == "string_fragment")?;
        let nm = rule.matcher.match_node(frag)?;
        let b = nm.get_env().get_transformed("B")?;
        Some(String::from_utf8_lossy(b).to_string())
      });
      let want = py_slice(&chars, s, e);
      match r {
        Ok(Some(got)) if got == want => {}
        Ok(got) => {
          let cls = match (s, e) {
            (Some(a), _) if a < 0 => "negative-start",
            (_, Some(b)) if b < 0 => "negative-end",
            _ => "non-negative",
          };
          rep.violation(&format!("C20/substring/value/{cls}"), &format!("substring({t:?}, {s:?}, {e:?}) = {got:?}, Python slice gives {want:?}"), replay)
        }
        Err(p) => rep.violation(&format!("C20/substring/panic/{}", p.site()), &p.message, replay),
      }
    }
  }
  rep.count("substring_texts", texts.len() as u64);
  rep.count("exhaustive_spaces", 1);
}

// ---------------------------------------------------------------- templates

/// reference template scanner; returns None when the string carries no verdict
/// (sigil runs longer than 3, names starting with `_`)
pub fn ref_template(tpl: &str, single: &dyn Fn(&str) -> Option<String>, multi: &dyn Fn(&str) -> Option<String>) -> Option<(String, Vec<String>)> {
  let cs: Vec<char> = tpl.chars().collect();
  let mut out = String::new();
  let mut used = vec![];
  let mut i = 0;
  while i < cs.len() {
    if cs[i] != '$' {
      out.push(cs[i]);
      i += 1;
      continue;
    }
    let mut k = 0;
    while i + k < cs.len() && cs[i + k] == '$' {
      k += 1;
    }
    if k > 3 {
      return None;
    }
    let mut j = i + k;
    let ns = j;
    if j < cs.len() && (cs[j].is_ascii_uppercase() || cs[j] == '_') {
      while j < cs.len() && (cs[j].is_ascii_uppercase() || cs[j] == '_' || cs[j].is_ascii_digit()) {
        j += 1;
      }
    }
    let name: String = cs[ns..j].iter().collect();
    if name.is_empty() {
      // lone sigils (possibly followed by lower case / digit): literal
      if j < cs.len() && cs[j].is_ascii_digit() {
        return None; // digit-first names: no verdict
      }
      for _ in 0..k {
        out.push('$');
      }
      i += k;
      continue;
    }
    if name.starts_with('_') {
      return None;
    }
    used.push(name.clone());
    let v = if k == 3 { multi(&name) } else { single(&name) };
    if let Some(v) = v {
      out.push_str(&v);
    }
    i = j;
  }
  Some((out, used))
}

fn templates(ctx: &Ctx, rep: &mut Report) {
  let alpha = ['$', 'A', 'a', '_', ' '];
  let max_len = if ctx.thorough { 7 } else { 6 };
  let mut all = vec![];
  enumerate(&alpha, max_len, |s| {
    if !s.is_empty() {
      all.push(s.to_string());
    }
  });
  let mine = corpus::shard(&all, ctx.shard, ctx.nshards);
  let lang = SupportLang::JavaScript;
  let g1 = lang.ast_grep("f(X)");
  let nm1 = g1.root().find(Pattern::new("f($A)", lang)).expect("m1");
  let g2 = lang.ast_grep("f(X, Y)");
  let nm2 = g2.root().find(Pattern::new("f($$$A)", lang)).expect("m2");
  for t in mine {
    rep.evaluations += 1;
    let e1 = ref_template(&t, &|n| (n == "A").then(|| "X".to_string()), &|_| None);
    let e2 = ref_template(&t, &|_| None, &|n| (n == "A").then(|| "X, Y".to_string()));
    let (Some((w1, used)), Some((w2, _))) = (e1, e2) else {
      rep.count("templates_no_verdict", 1);
      continue;
    };
    if t.contains('$') {
      rep.nontrivial(hash_str(&format!("tpl/{t}")));
    }
    let replay = json!({"monitor":"c20","part":"template","template":t});
    let r = guarded(|| {
      let fix = TemplateFix::try_new(&t, &lang).map_err(|e| format!("{e}"))?;
      let mut got_used: Vec<String> = fix.used_vars().into_iter().map(|s| s.to_string()).collect();
      got_used.sort();
      let mut want_used = used.clone();
      want_used.sort();
      want_used.dedup();
      if got_used != want_used {
        return Err(format!("used_vars {:?}, expected {:?}", got_used, want_used));
      }
      let o1 = String::from_utf8_lossy(&fix.generate_replacement(&nm1)).to_string();
      let o2 = String::from_utf8_lossy(&fix.generate_replacement(&nm2)).to_string();
      if o1 != w1 {
        return Err(format!("with A=X: {:?}, expected {:?}", o1, w1));
      }
      if o2 != w2 {
        return Err(format!("with $$$A=[X, Y]: {:?}, expected {:?}", o2, w2));
      }
      Ok(())
    });
    match r {
      Ok(Ok(())) => {}
      Ok(Err(e)) => {
        let cls = if e.starts_with("used_vars") { "used-vars" } else { "expansion" };
        let sh = if t.chars().any(|c| c.is_ascii_lowercase()) { "has-lower" } else { "upper-only" };
        rep.violation(&format!("C20/template/{cls}/{sh}"), &format!("template {t:?}: {e}"), replay)
      }
      Err(p) => rep.violation(&format!("C20/template/panic/{}", p.site()), &format!("template {t:?}: {}", p.message), replay),
    }
  }
  rep.count("template_strings", all.len() as u64);
  rep.count("exhaustive_spaces", 1);
}

pub fn run(ctx: &Ctx, rep: &mut Report) {
  if let Some(r) = &ctx.replay {
    replay(r, rep);
    return;
  }
  spellings(ctx, rep);
  carriers(ctx, rep);
  nth_child(ctx, rep);
  substring(ctx, rep);
  templates(ctx, rep);
  rep.sample(json!({"spelling": "$$$1A", "carrier": "foo($$_)", "nthChild": "-2n + 3", "substring": {"text":"aé🦀","start":-2,"end":null}, "template": "$A_a $$$A"}));
}

fn replay(r: &serde_json::Value, rep: &mut Report) {
  // single-case replays re-run the whole (cheap) part restricted by a filter on the reported signature:
  // simplest faithful replay is to re-run the part at quick bounds on one shard
  let ctx = Ctx { seed: 1, thorough: false, shard: 0, nshards: 1, replay: None, scale: 1.0, args: vec![] };
  match r["part"].as_str().unwrap_or("") {
    "spelling" => {
      let lang = crate::util::lang_of(r["lang"].as_str().unwrap());
      let s = r["s"].as_str().unwrap();
      rep.evaluations += 1;
      let got = lang.extract_meta_var(&lang.pre_process_pattern(s));
      let want = spec_hole(s);
      if got != want {
        let group = format!("expando={}", lang.expando_char());
        let sig = spelling_sig(s, lang.expando_char(), &group, &got, &want);
        rep.violation(&sig, &format!("`{s}` should be {:?} but is {:?}", want, got), r.clone());
      }
    }
    "carrier" => carriers(&ctx, rep),
    "nth" => nth_child(&ctx, rep),
    "substring" => substring(&ctx, rep),
    "template" => templates(&ctx, rep),
    _ => {}
  }
}
