//! C08 helper: the LIBRARY's edits for one rule and source (`vmon c08-lib --replay case.json`);
//! the cross-front-end comparison lives in drivers/c08.py.
use crate::util::guarded;
use crate::{Ctx, Report};
use ast_grep_config::{from_yaml_string, GlobalRules};
use ast_grep_core::traversal::Visitor;
use ast_grep_core::Language;
use ast_grep_language::SupportLang;
use serde_json::json;

pub fn lib(ctx: &Ctx, rep: &mut Report) {
  let Some(r) = &ctx.replay else { return };
  let mut out = vec![];
  for case in r["cases"].as_array().unwrap() {
    let lang: SupportLang = case["lang"].as_str().unwrap().parse().unwrap();
    let src = case["source"].as_str().unwrap();
    let yaml = case["rule"].as_str().unwrap();
    let res = guarded(|| {
      let cfg = from_yaml_string::<SupportLang>(yaml, &GlobalRules::default()).ok()?.pop()?;
      let fixer = cfg.matcher.fixer.as_ref()?;
      let grep = lang.ast_grep(src);
      // every match in document order (the JSON printer lists all matches, nested ones included)
      let edits: Vec<_> = Visitor::new(&cfg.matcher)
        .reentrant(true)
        .visit(grep.root())
        .map(|nm| {
          let e = nm.make_edit(&cfg.matcher, fixer);
          json!({"start": e.position, "end": e.position + e.deleted_length, "text": String::from_utf8_lossy(&e.inserted_text), "node": [nm.range().start, nm.range().end]})
        })
        .collect();
      Some(edits)
    });
    out.push(match res {
      Ok(Some(e)) => json!(e),
      Ok(None) => json!(null),
      Err(p) => json!({"panic": format!("{}: {}", p.location, p.message)}),
    });
    rep.evaluations += 1;
  }
  rep.samples = out;
}
