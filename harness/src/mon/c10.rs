//! C10 — editing a parsed document is indistinguishable from parsing the edited text.
use crate::corpus::{self, SrcFile};
use crate::rng::{hash_parts, Rng};
use crate::util::{guarded, N};
use crate::{Ctx, Report};
use ast_grep_core::source::Edit;
use ast_grep_core::{AstGrep, Language, StrDoc};
use ast_grep_language::SupportLang;
use serde_json::{json, Value};

type Ag = AstGrep<StrDoc<SupportLang>>;

#[derive(Clone, Debug)]
enum Op {
  Edit { pos: usize, del: usize, ins: String },
  Replace { pattern: String, fix: String },
}

fn op_json(o: &Op) -> Value {
  match o {
    Op::Edit { pos, del, ins } => json!({"op":"edit","pos":pos,"del":del,"ins":ins}),
    Op::Replace { pattern, fix } => json!({"op":"replace","pattern":pattern,"fix":fix}),
  }
}
fn op_from(v: &Value) -> Op {
  if v["op"] == "edit" {
    Op::Edit {
      pos: v["pos"].as_u64().unwrap() as usize,
      del: v["del"].as_u64().unwrap() as usize,
      ins: v["ins"].as_str().unwrap().to_string(),
    }
  } else {
    Op::Replace {
      pattern: v["pattern"].as_str().unwrap().to_string(),
      fix: v["fix"].as_str().unwrap().to_string(),
    }
  }
}

/// raw tree-sitter reference used only to ATTRIBUTE a divergence: the same history replayed
/// through tree-sitter directly with an InputEdit computed independently by the harness.
struct Raw {
  parser: tree_sitter::Parser,
  tree: tree_sitter::Tree,
}
type RawDump = Vec<(u16, bool, usize, usize, usize)>;
fn raw_point(text: &[u8], off: usize) -> tree_sitter::Point {
  let row = text[..off].iter().filter(|b| **b == b'\n').count();
  let col = off - text[..off].iter().rposition(|b| *b == b'\n').map(|i| i + 1).unwrap_or(0);
  tree_sitter::Point::new(row as u32, col as u32)
}
fn raw_dump_node(n: &tree_sitter::Node, out: &mut RawDump) {
  out.push((n.kind_id(), n.is_named(), n.start_byte() as usize, n.end_byte() as usize, n.child_count() as usize));
  for i in 0..n.child_count() {
    if let Some(c) = n.child(i) {
      raw_dump_node(&c, out);
    }
  }
}
impl Raw {
  fn new(lang: SupportLang, src: &str) -> Option<Raw> {
    let mut parser = tree_sitter::Parser::new().ok()?;
    parser.set_language(&lang.get_ts_language()).ok()?;
    let tree = parser.parse(src.as_bytes(), None).ok()??;
    Some(Raw { parser, tree })
  }
  fn edit(&mut self, before: &str, pos: usize, del: usize, ins: &str, after: &str) -> Option<()> {
    let ie = tree_sitter::InputEdit::new(
      pos as u32,
      (pos + del) as u32,
      (pos + ins.len()) as u32,
      &raw_point(before.as_bytes(), pos),
      &raw_point(before.as_bytes(), pos + del),
      &raw_point(after.as_bytes(), pos + ins.len()),
    );
    self.tree.edit(&ie);
    self.tree = self.parser.parse(after.as_bytes(), Some(&self.tree)).ok()??;
    Some(())
  }
  fn dump(&self) -> RawDump {
    let mut out = vec![];
    raw_dump_node(&self.tree.root_node(), &mut out);
    out
  }
  fn fresh_dump(&mut self, text: &str) -> Option<RawDump> {
    self.parser.reset();
    let t = self.parser.parse(text.as_bytes(), None).ok()??;
    let mut out = vec![];
    raw_dump_node(&t.root_node(), &mut out);
    Some(out)
  }
}

type Dump = Vec<(u16, bool, usize, usize, usize, usize, usize, usize, usize)>;

fn dump(root: &N) -> Dump {
  root
    .dfs()
    .map(|n| {
      let s = n.start_pos();
      let e = n.end_pos();
      (
        n.kind_id(),
        n.is_named(),
        n.range().start,
        n.range().end,
        s.line(),
        s.column(&n),
        e.line(),
        e.column(&n),
        n.children().len(),
      )
    })
    .collect()
}

const REPL_TOKENS: &[&str] = &["x", "longer_name_42", "é", "名前", "a1", "v", "zzzzzzzzzzzzzzzzzzzzzzzz"];

fn gen_op(ag: &Ag, rng: &mut Rng) -> Option<Op> {
  let root = ag.root();
  let src = ag.source();
  let stmts: Vec<N> = root.children().filter(|c| c.is_named() && !c.range().is_empty()).collect();
  let leaves: Vec<N> = root
    .dfs()
    .filter(|n| n.is_named_leaf() && n.is_named() && !n.range().is_empty() && n.range().len() < 40)
    .take(4000)
    .collect();
  match rng.below(13) {
    10 | 11 | 12 => {
      // blank-only edits where layout matters: a line's indentation grows or shrinks, a line break becomes
      // spaces or spaces become a line break, a run of blanks is replaced by another run
      let b = src.as_bytes();
      let runs: Vec<(usize, usize)> = {
        let mut v = vec![];
        let mut i = 0;
        while i < b.len() {
          if b[i] == b' ' || b[i] == b'\n' || b[i] == b'\t' {
            let st = i;
            while i < b.len() && (b[i] == b' ' || b[i] == b'\n' || b[i] == b'\t') {
              i += 1;
            }
            v.push((st, i));
          } else {
            i += 1;
          }
        }
        v
      };
      if runs.is_empty() {
        return None;
      }
      let (st, en) = *rng.pick(&runs);
      let run = &src[st..en];
      match rng.below(5) {
        // indent the line that follows a line break further / dedent it
        0 if run.contains('\n') => Some(Op::Edit { pos: en, del: 0, ins: "    ".to_string() }),
        1 if run.ends_with("  ") => Some(Op::Edit { pos: en - 2, del: 2, ins: String::new() }),
        // a line break becomes blanks, blanks become a line break
        2 if run.contains('\n') => Some(Op::Edit { pos: st, del: en - st, ins: "   ".to_string() }),
        3 => Some(Op::Edit { pos: st, del: en - st, ins: "\n".to_string() }),
        _ => Some(Op::Edit { pos: st, del: en - st, ins: format!("{run} ") }),
      }
    }
    0 | 1 | 2 if !leaves.is_empty() => {
      // replace a named leaf by another token (shorter / longer / multi-byte) or another leaf's text
      let l = rng.pick(&leaves);
      let ins = if rng.chance(1, 2) {
        rng.pick(REPL_TOKENS).to_string()
      } else {
        rng.pick(&leaves).text().to_string()
      };
      Some(Op::Edit { pos: l.range().start, del: l.range().len(), ins })
    }
    3 if !stmts.is_empty() => {
      // delete a top-level statement (with the following newline when there is one)
      let s = rng.pick(&stmts);
      let mut end = s.range().end;
      if src.as_bytes().get(end) == Some(&b'\n') {
        end += 1;
      }
      Some(Op::Edit { pos: s.range().start, del: end - s.range().start, ins: String::new() })
    }
    4 if !stmts.is_empty() => {
      // duplicate a top-level statement after itself
      let s = rng.pick(&stmts);
      Some(Op::Edit { pos: s.range().end, del: 0, ins: format!("\n{}", s.text()) })
    }
    5 if !stmts.is_empty() => {
      // insert a copy of a statement at offset 0
      let s = rng.pick(&stmts);
      Some(Op::Edit { pos: 0, del: 0, ins: format!("{}\n", s.text()) })
    }
    6 if !stmts.is_empty() => {
      // append at EOF
      let s = rng.pick(&stmts);
      Some(Op::Edit { pos: src.len(), del: 0, ins: format!("\n{}\n", s.text()) })
    }
    7 => {
      // add or remove blank lines at a line boundary
      let nls: Vec<usize> = src.bytes().enumerate().filter(|(_, b)| *b == b'\n').map(|(i, _)| i).collect();
      if nls.is_empty() {
        return None;
      }
      let at = *rng.pick(&nls);
      if rng.chance(1, 2) {
        Some(Op::Edit { pos: at, del: 0, ins: "\n\n".to_string() })
      } else if src.as_bytes().get(at + 1) == Some(&b'\n') {
        Some(Op::Edit { pos: at, del: 1, ins: String::new() })
      } else {
        Some(Op::Edit { pos: at, del: 0, ins: "\n".to_string() })
      }
    }
    _ if !leaves.is_empty() => {
      // replacement produced by a real match: pattern = text of a leaf, fix = another token
      let l = rng.pick(&leaves);
      let fix = if rng.chance(1, 2) {
        rng.pick(REPL_TOKENS).to_string()
      } else {
        rng.pick(&leaves).text().to_string()
      };
      let p = l.text().to_string();
      if p.contains('$') || fix.contains('$') {
        return None;
      }
      Some(Op::Replace { pattern: p, fix })
    }
    _ => None,
  }
}

/// apply one op; returns the text the harness expects afterwards (own splice), or None if the op did nothing
fn apply(ag: &mut Ag, op: &Op) -> Result<Option<(String, usize, usize, String)>, String> {
  let before = ag.source().to_string();
  match op {
    Op::Edit { pos, del, ins } => {
      if !before.is_char_boundary(*pos) || !before.is_char_boundary(pos + del) {
        return Ok(None);
      }
      let want = format!("{}{}{}", &before[..*pos], ins, &before[pos + del..]);
      ag.edit(Edit { position: *pos, deleted_length: *del, inserted_text: ins.as_bytes().to_vec() })
        .map_err(|e| format!("{e}"))?;
      Ok(Some((want, *pos, *del, ins.clone())))
    }
    Op::Replace { pattern, fix } => {
      // the expected text: first match of the pattern (library find) replaced by the template expansion
      let lang = *ag.lang();
      let pat = match ast_grep_core::Pattern::try_new(pattern, lang) {
        Ok(p) => p,
        Err(_) => return Ok(None),
      };
      let Some(edit) = ag.root().replace(&pat, fix.as_str()) else {
        return Ok(None);
      };
      let want = format!(
        "{}{}{}",
        &before[..edit.position],
        String::from_utf8_lossy(&edit.inserted_text),
        &before[edit.position + edit.deleted_length..]
      );
      let did = ag.replace(&pat, fix.as_str()).map_err(|e| format!("{e}"))?;
      if !did {
        return Err("replace() returned false although a match exists".into());
      }
      Ok(Some((want, edit.position, edit.deleted_length, String::from_utf8_lossy(&edit.inserted_text).to_string())))
    }
  }
}

fn first_diff(a: &Dump, b: &Dump) -> String {
  for (i, (x, y)) in a.iter().zip(b.iter()).enumerate() {
    if x != y {
      return format!("node #{i}: edited={:?} fresh={:?}", x, y);
    }
  }
  format!("lengths {} vs {}", a.len(), b.len())
}

pub fn run_history(lang_name: &str, name: &str, src: &str, ops: &[Op], rep: &mut Report) -> (usize, bool) {
  let lang = crate::util::lang_of(lang_name);
  let mk_replay = |upto: usize| {
    json!({"monitor":"c10","lang":lang_name,"file":name,"source":src,"ops": ops[..upto].iter().map(op_json).collect::<Vec<_>>()})
  };
  let mut compared = 0usize;
  let mut nontrivial = false;
  let res = guarded(|| {
    let mut out: Vec<(String, String, usize)> = vec![];
    let mut ag = lang.ast_grep(src);
    let mut raw = Raw::new(lang, src);
    let mut len_changed_before_node = false;
    for (i, op) in ops.iter().enumerate() {
      let before_len = ag.source().len();
      let before_text = ag.source().to_string();
      let want = match apply(&mut ag, op) {
        Ok(Some((w, pos, del, ins))) => {
          if let Some(r) = raw.as_mut() {
            if r.edit(&before_text, pos, del, &ins, &w).is_none() {
              raw = None;
            }
          }
          w
        }
        Ok(None) => continue,
        Err(e) => {
          out.push(("C10/api-error".to_string(), e, i + 1));
          break;
        }
      };
      if ag.source() != want {
        out.push(("C10/text".to_string(), "source() is not the spliced text".into(), i + 1));
        break;
      }
      if want.len() != before_len {
        len_changed_before_node = true;
      }
      let fresh = lang.ast_grep(&want);
      if fresh.root().dfs().any(|n| n.is_error() || n.get_ts_node().is_missing()) {
        continue; // statement: only histories whose resulting text parses without errors
      }
      let a = dump(&ag.root());
      let b = dump(&fresh.root());
      compared += 1;
      if i >= 1 && len_changed_before_node {
        nontrivial = true;
      }
      if a != b {
        let has_err = ag.root().dfs().any(|n| n.is_error());
        // attribution: does tree-sitter itself, fed an independently computed InputEdit, produce
        // exactly ast-grep's tree and also disagree with its own fresh parse?
        let proj: RawDump = a.iter().map(|x| (x.0, x.1, x.2, x.3, x.8)).collect();
        let ts_fault = match raw.as_mut() {
          Some(r) => {
            let inc = r.dump();
            let fresh = r.fresh_dump(&want);
            inc == proj && fresh.map(|f| f != inc).unwrap_or(false)
          }
          None => false,
        };
        let sig = if ts_fault {
          "C10/tree-sitter-incremental-reparse".to_string()
        } else if has_err {
          "C10/tree/error-node-in-edited-tree".to_string()
        } else {
          "C10/tree/shape".to_string()
        };
        out.push((sig, format!("tree after step {} differs from a fresh parse: {}", i + 1, first_diff(&a, &b)), i + 1));
        break;
      }
      // later searches see what a fresh parse sees: probe with kinds of a few nodes
      let probes: Vec<String> = fresh
        .root()
        .dfs()
        .filter(|n| n.is_named_leaf() && n.range().len() < 30 && !n.text().contains('$'))
        .step_by(37)
        .take(3)
        .map(|n| n.text().to_string())
        .collect();
      for p in probes {
        if let Ok(pat) = ast_grep_core::Pattern::try_new(&p, lang) {
          let x: Vec<_> = ag.root().find_all(&pat).map(|m| m.range()).collect();
          let y: Vec<_> = fresh.root().find_all(&pat).map(|m| m.range()).collect();
          if x != y {
            out.push(("C10/search".to_string(), format!("find_all({p:?}) differs between edited and fresh document"), i + 1));
          }
        }
      }
    }
    out
  });
  match res {
    Ok(v) => {
      for (sig, what, upto) in v {
        rep.violation(&sig, &what, mk_replay(upto));
      }
    }
    Err(p) => {
      rep.violation(&format!("C10/panic/{}", p.site()), &format!("panic at {}: {}", p.location, p.message), mk_replay(ops.len()));
    }
  }
  (compared, nontrivial)
}

fn gen_history(lang: SupportLang, src: &str, len: usize, rng: &mut Rng) -> Vec<Op> {
  // generate against a scratch document that is edited the same way (text only), so that the
  // ops are meaningful for the evolving text; the scratch copy is re-parsed from scratch each step
  let mut text = src.to_string();
  let mut ops = vec![];
  for _ in 0..len {
    let ag = lang.ast_grep(&text);
    let Some(op) = gen_op(&ag, rng) else { continue };
    // advance the scratch text with our own splice / a fresh replace
    match &op {
      Op::Edit { pos, del, ins } => {
        if !text.is_char_boundary(*pos) || !text.is_char_boundary(pos + del) {
          continue;
        }
        text = format!("{}{}{}", &text[..*pos], ins, &text[pos + del..]);
      }
      Op::Replace { pattern, fix } => {
        let Ok(pat) = ast_grep_core::Pattern::try_new(pattern, lang) else { continue };
        let Some(e) = ag.root().replace(&pat, fix.as_str()) else { continue };
        text = format!("{}{}{}", &text[..e.position], String::from_utf8_lossy(&e.inserted_text), &text[e.position + e.deleted_length..]);
      }
    }
    ops.push(op);
    if text.len() > 60_000 {
      break;
    }
  }
  ops
}

pub fn run(ctx: &Ctx, rep: &mut Report) {
  if let Some(r) = &ctx.replay {
    let ops: Vec<Op> = r["ops"].as_array().unwrap().iter().map(op_from).collect();
    let (c, _) = run_history(r["lang"].as_str().unwrap(), r["file"].as_str().unwrap_or("replay"), r["source"].as_str().unwrap(), &ops, rep);
    rep.evaluations += c as u64;
    return;
  }
  let mut rng = ctx.rng("c10");
  let files: Vec<SrcFile> = corpus::shard(&corpus::load_all(), ctx.shard, ctx.nshards);
  let per_file = if ctx.thorough { 40 } else { 3 };
  for f in &files {
    let lname = corpus::lang_name(f.lang);
    // work on moderately sized texts: whole file if small, else a leading slice cut at a line boundary
    let text = if f.text.len() > 6000 {
      let cut = f.text[..6000].rfind('\n').unwrap_or(6000);
      f.text[..cut + 1].to_string()
    } else {
      f.text.clone()
    };
    for h in 0..per_file {
      let len = 1 + rng.below(if ctx.thorough { 40 } else { 14 });
      let ops = gen_history(f.lang, &text, len, &mut rng);
      if ops.is_empty() {
        continue;
      }
      let (compared, nt) = run_history(&lname, &f.name, &text, &ops, rep);
      rep.evaluations += compared as u64;
      rep.count("histories", 1);
      rep.count("steps", ops.len() as u64);
      rep.count(&format!("lang.{lname}"), compared as u64);
      if nt {
        rep.nontrivial(hash_parts(&[&f.name, &format!("{h}"), &format!("{:?}", ops)]));
      }
      if h == 0 {
        rep.sample(json!({"file": f.name, "ops": ops.iter().take(4).map(op_json).collect::<Vec<_>>()}));
      }
    }
  }
}
