//! C06 — rewrites touch only what was matched: edits are well-formed and local.
use crate::corpus::{self, SrcFile, Mutation};
use crate::gen;
use crate::mon::c05::excerpt;
use crate::rng::{hash_parts, Rng};
use crate::util::{clip, guarded, N};
use crate::{Ctx, Report};
use ast_grep_config::{from_yaml_string, GlobalRules, RuleConfig};
use ast_grep_core::matcher::MatcherExt;
use ast_grep_core::source::Edit;
use ast_grep_core::traversal::Visitor;
use ast_grep_core::{Language, Pattern};
use ast_grep_language::SupportLang;
use serde_json::{json, Value};

type E = Edit<String>;

fn load(yaml: &str) -> Result<RuleConfig<SupportLang>, String> {
  let g = GlobalRules::default();
  let mut v = from_yaml_string::<SupportLang>(yaml, &g).map_err(|e| format!("{e:#}"))?;
  if v.len() != 1 {
    return Err("docs".into());
  }
  Ok(v.remove(0))
}

/// properties every edit must have
fn check_edit(src: &str, e: &E, m: &N, expanded: bool, sigs: &mut Vec<(String, String)>, tag: &str) {
  let end = e.position + e.deleted_length;
  if end > src.len() {
    sigs.push((format!("C06/{tag}/outside-file"), format!("edit {}..{} but the file has {} bytes", e.position, end, src.len())));
    return;
  }
  if !src.is_char_boundary(e.position) || !src.is_char_boundary(end) {
    sigs.push((format!("C06/{tag}/splits-character"), format!("edit {}..{} is not on character boundaries", e.position, end)));
  }
  if std::str::from_utf8(&e.inserted_text).is_err() {
    sigs.push((format!("C06/{tag}/invalid-utf8"), "inserted text is not valid UTF-8".into()));
  }
  let r = m.range();
  if !expanded {
    if e.position != r.start {
      sigs.push((format!("C06/{tag}/start-not-at-match"), format!("edit starts at {} but the match at {}", e.position, r.start)));
    }
    if end > r.end {
      sigs.push((format!("C06/{tag}/beyond-match"), format!("edit ends at {end} but the match at {}", r.end)));
    }
  } else {
    if e.position > r.start || end < r.end {
      sigs.push((format!("C06/{tag}/expansion-shrinks"), format!("expanded edit {}..{end} does not cover the match {:?}", e.position, r)));
    }
    // both ends are boundaries of siblings (or of the match itself)
    let mut starts = vec![r.start];
    let mut ends = vec![r.end];
    let mut c = m.prev();
    while let Some(x) = c {
      starts.push(x.range().start);
      c = x.prev();
    }
    let mut c = m.next();
    while let Some(x) = c {
      ends.push(x.range().end);
      c = x.next();
    }
    if !starts.contains(&e.position) || !ends.contains(&end) {
      // a relational expansion rule may return a node inside a sibling: accept any node boundary
      // within the parent's extent, reject anything else
      let p = m.parent().map(|p| p.range()).unwrap_or(0..src.len());
      if e.position < p.start || end > p.end {
        sigs.push((format!("C06/{tag}/expansion-leaves-parent"), format!("expanded edit {}..{end} leaves the parent {:?}", e.position, p)));
      }
    }
  }
}

fn splice(src: &str, edits: &[&E]) -> Option<String> {
  let mut out = Vec::new();
  let mut at = 0;
  for e in edits {
    if e.position < at || e.position + e.deleted_length > src.len() {
      return None;
    }
    out.extend_from_slice(&src.as_bytes()[at..e.position]);
    out.extend_from_slice(&e.inserted_text);
    at = e.position + e.deleted_length;
  }
  out.extend_from_slice(&src.as_bytes()[at..]);
  String::from_utf8(out).ok()
}

/// expansion rules see the bindings of the match: `expandEnd: {pattern: $V}` may only reach a sibling that is
/// the same code as what `$V` captured
pub fn check_bound_expansion(lang: SupportLang, lname: &str, fname: &str, src: &str, yaml: &str, var: &str, rep: &mut Report) {
  let replay = json!({"monitor":"c06","case":"bound-expansion","lang":lname,"file":fname,"source":src,"rule":yaml,"var":var});
  let r = guarded(|| {
    let Ok(cfg) = load(yaml) else { return (0u64, vec![]) };
    let Some(fixer) = cfg.matcher.fixer.as_ref() else { return (0, vec![]) };
    let grep = lang.ast_grep(src);
    let mut sigs = vec![];
    let mut n = 0u64;
    for nm in Visitor::new(&cfg.matcher).reentrant(false).visit(grep.root()) {
      let Some(bound) = nm.get_env().get_match(var).map(|b| b.text().to_string()) else { continue };
      let e = nm.make_edit(&cfg.matcher, fixer);
      let (start, end) = (e.position, e.position + e.deleted_length);
      let m = nm.get_node();
      n += 1;
      if end > m.range().end {
        match m.next_all().find(|x| x.range().end == end) {
          Some(sib) if sib.text() == bound.as_str() => {}
          Some(sib) => sigs.push(("C06/expand/bound-variable-ignored".to_string(), format!("expandEnd with pattern ${var} (bound to `{}`) reached the sibling `{}`", clip(&bound, 40), clip(&sib.text(), 40)))),
          None => {}
        }
      }
      if start < m.range().start {
        match m.prev_all().find(|x| x.range().start == start) {
          Some(sib) if sib.text() == bound.as_str() => {}
          Some(sib) => sigs.push(("C06/expand/bound-variable-ignored".to_string(), format!("expandStart with pattern ${var} (bound to `{}`) reached the sibling `{}`", clip(&bound, 40), clip(&sib.text(), 40)))),
          None => {}
        }
      }
    }
    (n, sigs)
  });
  match r {
    Ok((n, sigs)) => {
      rep.count("bound_expansion_matches", n);
      for (sig, what) in sigs {
        rep.violation(&sig, &format!("{what} (rule {})", clip(yaml, 200)), replay.clone());
      }
    }
    Err(p) => rep.violation(&format!("C06/panic/{}", p.site()), &format!("panic at {}: {} (rule {})", p.location, p.message, clip(yaml, 200)), replay),
  }
}

/// one rule (YAML) on one source
pub fn check_rule(lang: SupportLang, lname: &str, fname: &str, src: &str, yaml: &str, expanded: bool, rep: &mut Report) -> usize {
  let replay = json!({"monitor":"c06","case":"rule","lang":lname,"file":fname,"source":src,"rule":yaml,"expanded":expanded});
  let r = guarded(|| {
    let cfg = match load(yaml) {
      Ok(c) => c,
      Err(_) => return (0, vec![], false),
    };
    let Some(fixer) = cfg.matcher.fixer.as_ref() else { return (0, vec![], false) };
    let grep = lang.ast_grep(src);
    let root = grep.root();
    let mut sigs = vec![];
    let mut edits: Vec<E> = vec![];
    let mut nt = false;
    for nm in Visitor::new(&cfg.matcher).reentrant(false).visit(root.clone()) {
      let e = nm.make_edit(&cfg.matcher, fixer);
      check_edit(src, &e, nm.get_node(), expanded, &mut sigs, if expanded { "expand" } else { "fix" });
      let near_mb = src.as_bytes()[e.position.saturating_sub(16)..(e.position + e.deleted_length + 16).min(src.len())].iter().any(|b| *b >= 0x80);
      if near_mb || (expanded && (e.position != nm.range().start || e.position + e.deleted_length != nm.range().end)) {
        nt = true;
      }
      edits.push(e);
    }
    if edits.len() >= 2 {
      nt = true;
    }
    // replace_all: ordered and disjoint (expansions may legitimately overlap their neighbours' expansions:
    // the statement speaks of the edits proposed in overlap-free mode, i.e. of the matched extents)
    let all = root.replace_all(&cfg.matcher, fixer);
    let mut prev_end = 0;
    for (i, e) in all.iter().enumerate() {
      if i > 0 && e.position < prev_end && !expanded {
        sigs.push(("C06/replace_all/overlap".to_string(), format!("edit #{i} starts at {} before the previous one ends at {prev_end}", e.position)));
      }
      prev_end = prev_end.max(e.position + e.deleted_length);
    }
    if all.len() != edits.len() {
      sigs.push(("C06/replace_all/count".to_string(), format!("replace_all yields {} edits, the overlap-free visitor {}", all.len(), edits.len())));
    }
    // the rewritten text: AstGrep::replace applies the first edit; everything else is preserved
    if let Some(first) = edits.first() {
      if let Some(want) = splice(src, &[first]) {
        let mut g2 = lang.ast_grep(src);
        match g2.replace(&cfg.matcher, fixer) {
          Ok(true) => {
            if g2.source() != want {
              sigs.push(("C06/replace/text".to_string(), "AstGrep::replace did not produce original-with-that-range-substituted".to_string()));
            }
          }
          Ok(false) => sigs.push(("C06/replace/no-op".to_string(), "AstGrep::replace returned false although a match exists".to_string())),
          Err(e) => sigs.push(("C06/replace/error".to_string(), format!("{e}"))),
        }
      }
    }
    (edits.len(), sigs, nt)
  });
  match r {
    Ok((n, sigs, nt)) => {
      for (sig, what) in sigs {
        rep.violation(&sig, &format!("{what} (rule {})", clip(yaml, 200)), replay.clone());
      }
      if nt {
        rep.nontrivial(hash_parts(&[fname, src, yaml]));
      }
      n
    }
    Err(p) => {
      rep.violation(&format!("C06/panic/{}", p.site()), &format!("panic at {}: {} (rule {})", p.location, p.message, clip(yaml, 200)), replay);
      0
    }
  }
}

/// rewriters: reference splice for single-line captures with literal / simple rewriter fixes
pub fn check_rewrite(lang: SupportLang, lname: &str, fname: &str, src: &str, yaml: &str, spec: &Value, rep: &mut Report) -> usize {
  let replay = json!({"monitor":"c06","case":"rewrite","lang":lname,"file":fname,"source":src,"rule":yaml,"spec":spec});
  let r = guarded(|| {
    let cfg = match load(yaml) {
      Ok(c) => c,
      Err(_) => return (0, vec![], false, 0),
    };
    let grep = lang.ast_grep(src);
    let root = grep.root();
    // rewriters in the order of the `rewriters` list: (kind, wrap, literal)
    let rws: Vec<(String, bool, String)> = match spec["rws"].as_array() {
      Some(a) => a.iter().map(|x| (x["kind"].as_str().unwrap_or("").to_string(), x["wrap"].as_bool().unwrap_or(false), x["lit"].as_str().unwrap_or("").to_string())).collect(),
      None => vec![(spec["kind"].as_str().unwrap_or("").to_string(), spec["wrap"].as_bool().unwrap_or(false), spec["lit"].as_str().unwrap_or("").to_string())],
    };
    let join = spec["join"].as_str();
    let plain = spec["plain"].as_bool().unwrap_or(false);
    let mut sigs = vec![];
    let mut n = 0;
    let mut nt = false;
    let mut nested = 0u64;
    for node in root.dfs() {
      let Some(nm) = cfg.matcher.match_node(node.clone()) else { continue };
      n += 1;
      let env = nm.get_env();
      let Some(got) = env.get_transformed("NEW") else { continue };
      if std::str::from_utf8(got).is_err() {
        sigs.push(("C06/rewrite/invalid-utf8".to_string(), "transformed value is not valid UTF-8".to_string()));
        continue;
      }
      let got = String::from_utf8_lossy(got).to_string();
      if !plain {
        continue; // rewriters with expansions: invariants only (valid UTF-8, no panic)
      }
      // captured slice: $V (single) or $$$V (multi)
      let caps: Vec<N> = if let Some(c) = env.get_match("V") { vec![c.clone()] } else { env.get_multiple_matches("V") };
      if caps.is_empty() {
        continue;
      }
      let (s, e) = (caps[0].range().start, caps[caps.len() - 1].range().end);
      let slice = &src[s..e];
      if slice.contains('\n') {
        continue; // multi-line captures are re-indented: invariants only
      }
      // reference: pre-order nodes of the captured nodes of kind `kind`, non-overlapping left to right
      let mut pieces: Vec<(usize, usize, String)> = vec![];
      let mut nested_skipped = false;
      let mut at = s;
      for c in &caps {
        for d in c.dfs() {
          // the first rewriter of the list that matches the node makes the edit; an edit that starts
          // inside an earlier accepted one is dropped
          let Some((_, wrap, lit)) = rws.iter().find(|(k, _, _)| d.is_named() && d.kind() == k.as_str()) else { continue };
          if d.range().start >= at {
            let t = if *wrap { format!("<{}>", d.text()) } else { lit.to_string() };
            pieces.push((d.range().start, d.range().end, t));
            at = d.range().end;
          } else {
            nested_skipped = true;
          }
        }
      }
      let want = match join {
        Some(j) => pieces.iter().map(|p| p.2.clone()).collect::<Vec<_>>().join(j),
        None => {
          let mut out = String::new();
          let mut at = s;
          for (a, b, t) in &pieces {
            out.push_str(&src[at..*a]);
            out.push_str(t);
            at = *b;
          }
          out.push_str(&src[at..e]);
          out
        }
      };
      if !pieces.is_empty() {
        nt = true;
      }
      if nested_skipped {
        nested += 1;
      }
      if got != want {
        sigs.push((format!("C06/rewrite/value{}", if join.is_some() { "/joinBy" } else { "" }), format!("rewrite of `{}` gives {:?}, the reference splice {:?}", clip(slice, 60), clip(&got, 80), clip(&want, 80))));
      }
    }
    (n, sigs, nt, nested)
  });
  match r {
    Ok((n, sigs, nt, nested)) => {
      rep.count("rewrite_captures_with_nested_rewriter_matches", nested);
      for (sig, what) in sigs {
        rep.violation(&sig, &format!("{what} (rule {})", clip(yaml, 240)), replay.clone());
      }
      if nt {
        rep.nontrivial(hash_parts(&[fname, src, yaml]));
      }
      n
    }
    Err(p) => {
      rep.violation(&format!("C06/panic/{}", p.site()), &format!("panic at {}: {} (rule {})", p.location, p.message, clip(yaml, 240)), replay);
      0
    }
  }
}

fn yaml_of(v: Value) -> String {
  serde_json::to_string(&v).unwrap()
}

pub fn run_source(lang: SupportLang, fname: &str, src: &str, n_cases: usize, rng: &mut Rng, rep: &mut Report) {
  let lname = corpus::lang_name(lang);
  let grep = lang.ast_grep(src);
  let root = grep.root();
  let mut sites = gen::cut_sites(&root, 240);
  if sites.is_empty() {
    return;
  }
  rng.shuffle(&mut sites);
  let kinds: Vec<String> = {
    let mut k: Vec<String> = root.dfs().filter(|n| n.is_named() && n.is_leaf()).map(|n| n.kind().to_string()).collect();
    k.sort();
    k.dedup();
    k
  };
  let mut done = 0;
  for node in sites.iter().cycle().take(n_cases * 4) {
    if done >= n_cases {
      break;
    }
    let cut = match rng.below(5) {
      0 => gen::cut_singles(node, 0, rng),
      4 => gen::cut_trailing(node, rng),
      k => gen::cut_singles(node, k.min(2), rng),
    };
    let Some(cut) = cut else { continue };
    if Pattern::try_new(&cut.pattern, lang).is_err() {
      continue;
    }
    done += 1;
    rep.evaluations += 1;
    let vars: Vec<String> = cut.singles.iter().map(|(n, _)| format!("${n}")).chain(cut.multi.iter().map(|(n, _)| format!("$$${n}"))).collect();
    // --- string fix
    let tpl = match rng.below(4) {
      0 => "REPLACED".to_string(),
      1 => format!("é({})🦀", vars.join(", ")),
      2 => format!("{}\n  {}", vars.first().cloned().unwrap_or_default(), "tail"),
      _ => vars.iter().rev().cloned().collect::<Vec<_>>().join(" "),
    };
    let y = yaml_of(json!({"id":"t","language":lname,"rule":{"pattern":cut.pattern},"fix":tpl}));
    let n = check_rule(lang, &lname, fname, src, &y, false, rep);
    rep.count("edits_plain", n as u64);
    // --- object fix with expansion
    if kinds.is_empty() {
      continue;
    }
    let stop = match rng.below(3) {
      0 => json!("neighbor"),
      1 => json!("end"),
      _ => json!({"kind": rng.pick(&kinds)}),
    };
    if kinds.is_empty() {
      continue;
    }
    let exp_rule = match rng.below(3) {
      0 => json!({"regex": "^[,;]$", "stopBy": stop}),
      1 => json!({"kind": rng.pick(&kinds), "stopBy": stop}),
      _ => json!({"regex": "^.{1,3}$", "stopBy": stop}),
    };
    let mut fixo = serde_json::Map::new();
    fixo.insert("template".into(), json!(tpl));
    match rng.below(3) {
      0 => {
        fixo.insert("expandEnd".into(), exp_rule);
      }
      1 => {
        fixo.insert("expandStart".into(), exp_rule);
      }
      _ => {
        fixo.insert("expandEnd".into(), exp_rule.clone());
        fixo.insert("expandStart".into(), exp_rule);
      }
    }
    let y = yaml_of(json!({"id":"t","language":lname,"rule":{"pattern":cut.pattern},"fix":Value::Object(fixo)}));
    let n = check_rule(lang, &lname, fname, src, &y, true, rep);
    rep.count("edits_expanded", n as u64);
    // --- expansion rule that mentions a variable bound by the match
    if let Some((v, _)) = cut.singles.first() {
      let which = if rng.chance(1, 2) { "expandEnd" } else { "expandStart" };
      let mut fx = serde_json::Map::new();
      fx.insert("template".into(), json!("X"));
      fx.insert(which.into(), json!({"pattern": format!("${v}"), "stopBy": if rng.chance(1, 2) { json!("end") } else { json!("neighbor") }}));
      let y = yaml_of(json!({"id":"t","language":lname,"rule":{"pattern":cut.pattern},"fix":Value::Object(fx)}));
      check_bound_expansion(lang, &lname, fname, src, &y, v, rep);
    }
    // --- rewriters over the captured variable
    if let Some(var) = vars.first() {
      for _attempt in 0..2 {
        if kinds.is_empty() {
          break;
        }
        let join = if rng.chance(1, 2) { Some(*rng.pick(&["|", " + ", ""])) } else { None };
        let plain = rng.chance(3, 4);
        let src_var = if var.starts_with("$$$") { "$$$V".to_string() } else { "$V".to_string() };
        let pattern = cut.pattern.replacen(var.as_str(), &src_var, 1);
        // other variables keep their names; the first one is renamed to V
        if Pattern::try_new(&pattern, lang).is_err() {
          break;
        }
        // one or two rewriters on different kinds, taken from what the variable stood for in the
        // originating node (inner and outer nodes alike, so nested rewriter matches are frequent)
        let ranges: Vec<std::ops::Range<usize>> = match (cut.singles.first(), &cut.multi) {
          (Some((_, r)), _) => vec![r.clone()],
          (None, Some((_, rs))) => rs.clone(),
          _ => vec![],
        };
        let mut cap_kinds: Vec<String> = root
          .dfs()
          .filter(|d| d.is_named() && ranges.iter().any(|r| r.start <= d.range().start && d.range().end <= r.end))
          .map(|d| d.kind().to_string())
          .collect();
        cap_kinds.sort();
        cap_kinds.dedup();
        let pool: &Vec<String> = if cap_kinds.is_empty() || rng.chance(1, 5) { &kinds } else { &cap_kinds };
        let mut ks: Vec<String> = vec![rng.pick(pool).clone()];
        if rng.chance(1, 2) {
          let k2 = rng.pick(pool).clone();
          if k2 != ks[0] {
            ks.push(k2);
          }
        }
        let mut defs = vec![];
        let mut rws = vec![];
        for (i, kind) in ks.iter().enumerate() {
          let wrap = rng.chance(1, 2);
          let lit = format!("LIT{i}");
          let rw_rule = if wrap { json!({"kind": kind, "pattern": "$X"}) } else { json!({"kind": kind}) };
          let tmpl = if wrap { "<$X>".to_string() } else { lit.clone() };
          let rw_fix: Value = if plain { json!(tmpl) } else { json!({"template": tmpl, "expandEnd": {"regex": "^,$"}, "expandStart": {"regex": "^[(,]$", "stopBy": "end"}}) };
          defs.push(json!({"id": format!("rw{i}"), "rule": rw_rule, "fix": rw_fix}));
          rws.push(json!({"kind": kind, "wrap": wrap, "lit": lit}));
        }
        let mut rw = serde_json::Map::new();
        rw.insert("source".into(), json!(src_var));
        rw.insert("rewriters".into(), json!((0..ks.len()).map(|i| format!("rw{i}")).collect::<Vec<_>>()));
        if let Some(j) = join {
          rw.insert("joinBy".into(), json!(j));
        }
        let y = yaml_of(json!({"id":"t","language":lname,"rule":{"pattern":pattern},
          "transform":{"NEW":{"rewrite":Value::Object(rw)}},
          "rewriters":defs,
          "fix":"$NEW"}));
        let spec = json!({"rws":rws,"join":join,"plain":plain});
        let n = check_rewrite(lang, &lname, fname, src, &y, &spec, rep);
        rep.count("rewrite_matches", n as u64);
      }
    }
  }
}

pub fn run(ctx: &Ctx, rep: &mut Report) {
  if let Some(r) = &ctx.replay {
    let lname = r["lang"].as_str().unwrap();
    let lang = crate::util::lang_of(lname);
    let src = r["source"].as_str().unwrap();
    rep.evaluations += 1;
    if r["case"] == "bound-expansion" {
      check_bound_expansion(lang, lname, "replay", src, r["rule"].as_str().unwrap(), r["var"].as_str().unwrap(), rep);
      return;
    }
    if r["case"] == "rewrite" {
      check_rewrite(lang, lname, "replay", src, r["rule"].as_str().unwrap(), &r["spec"], rep);
    } else {
      check_rule(lang, lname, "replay", src, r["rule"].as_str().unwrap(), r["expanded"].as_bool().unwrap_or(false), rep);
    }
    return;
  }
  let mut rng = ctx.rng("c06");
  let files: Vec<SrcFile> = corpus::shard(&corpus::load_all(), ctx.shard, ctx.nshards);
  let n_cases = if ctx.thorough { 260 } else { 10 };
  for f in &files {
    let text = excerpt(&f.text, if ctx.thorough { 7000 } else { 3500 });
    run_source(f.lang, &f.name, &text, n_cases, &mut rng, rep);
    for m in [Mutation::InsertMultiByte, Mutation::Crlf, Mutation::DeleteToken] {
      let mut t = corpus::mutate(&text, m, &mut rng);
      if m == Mutation::InsertMultiByte {
        for _ in 0..6 {
          t = corpus::mutate(&t, m, &mut rng);
        }
      }
      run_source(f.lang, &format!("{}#{:?}", f.name, m), &t, n_cases / 3 + 1, &mut rng, rep);
    }
    rep.count(&format!("lang.{}", corpus::lang_name(f.lang)), 1);
  }
  rep.sample(json!({"cases": ["string fix", "object fix with expandStart/expandEnd", "rewrite transform with rewriters / joinBy"], "sources": "corpus excerpts + multi-byte, CRLF, syntax-error variants"}));
}
