//! C03 — every reported pattern match is justified by the documented strictness rules.
use crate::corpus::{self, SrcFile, MUTATIONS};
use crate::gen;
use crate::refsem::align::{legal, legal_ex, ALL_S, S};
use crate::rng::{hash_parts, Rng};
use crate::util::{clip, guarded, N};
use crate::{Ctx, Report};
use ast_grep_core::matcher::{Matcher, MatcherExt, PatternNode};
use ast_grep_core::{AstGrep, Language, Pattern, StrDoc};
use ast_grep_language::SupportLang;
use serde_json::json;
use std::collections::HashMap;

type Ag = AstGrep<StrDoc<SupportLang>>;

fn root_kind(p: &PatternNode) -> Option<u16> {
  match p {
    PatternNode::Internal { kind_id, .. } | PatternNode::Terminal { kind_id, .. } => Some(*kind_id),
    PatternNode::MetaVar { .. } => None,
  }
}

fn check_len(pat: &Pattern<SupportLang>, n: &N, s: S, sigs: &mut Vec<(String, String)>) {
  let r = guarded(|| pat.get_match_len(n.clone()));
  match r {
    Ok(None) => {}
    Ok(Some(len)) => {
      let start = n.range().start;
      let total = n.range().len();
      if len > total {
        sigs.push((format!("C03/match-len/exceeds-node/{}", s.name()), format!("get_match_len={len} but the node has {total} bytes")));
      } else if len == 0 {
        // an empty matched prefix neither exceeds the node nor splits a child: legal when everything in the
        // node may be skipped at this strictness (pattern `if $$$V` under ast on an ERROR node holding `*`)
      } else {
        let end = start + len;
        if !n.dfs().any(|d| d.range().end == end) {
          sigs.push((format!("C03/match-len/splits-child/{}", s.name()), format!("matched prefix ends at byte {end}, inside a child")));
        }
      }
    }
    Err(p) => sigs.push((format!("C03/match-len/panic/{}", p.site()), format!("get_match_len panicked at {}: {}", p.location, p.message))),
  }
}

/// one (pattern, candidate) pair at all five levels; returns number of implementation matches
pub fn check_pair(lname: &str, pattern: &str, pat: &Pattern<SupportLang>, cand_file: &str, cand_src: &str, n: &N, rep: &mut Report) -> usize {
  let mut matched_levels = vec![];
  let mut sigs: Vec<(String, String)> = vec![];
  for s in ALL_S {
    let p = pat.clone().with_strictness(s.to_impl());
    rep.evaluations += 1;
    let r = guarded(|| p.match_node(n.clone()).is_some());
    match r {
      Ok(true) => {
        matched_levels.push(s);
        if !legal(&p.node, n, s) {
          let attr = if legal_ex(&p.node, n, s, true) { "token-after-ellipsis-unmatched/" } else { "" };
          sigs.push((format!("C03/unjustified/{attr}{}", s.name()), format!("pattern `{}` matches `{}` under {} but no legal alignment exists", clip(pattern, 100), clip(&n.text(), 100), s.name())));
        }
        check_len(&p, n, s, &mut sigs);
      }
      Ok(false) => {}
      Err(pn) => sigs.push((format!("C03/panic/{}", pn.site()), format!("match_node panicked at {}: {}", pn.location, pn.message))),
    }
  }
  if !matched_levels.is_empty() {
    let text = n.text();
    let generalises = text != pattern;
    let near_miss = matched_levels.len() < 5;
    if generalises || near_miss {
      rep.nontrivial(hash_parts(&[lname, pattern, cand_file, &format!("{:?}", n.range())]));
    }
    if near_miss {
      rep.count("near_miss_pairs", 1);
    }
  }
  for (sig, what) in sigs {
    rep.violation(&sig, &what, json!({"monitor":"c03","lang":lname,"pattern":pattern,"file":cand_file,"source":cand_src,
      "node":[n.range().start,n.range().end],"kind":n.kind()}));
  }
  matched_levels.len()
}

struct Doc {
  name: String,
  ag: Ag,
}

pub fn run(ctx: &Ctx, rep: &mut Report) {
  if let Some(r) = &ctx.replay {
    let lname = r["lang"].as_str().unwrap();
    let lang = crate::util::lang_of(lname);
    let src = r["source"].as_str().unwrap();
    let ag = lang.ast_grep(src);
    let range = r["node"][0].as_u64().unwrap() as usize..r["node"][1].as_u64().unwrap() as usize;
    let kind = r["kind"].as_str().unwrap();
    let pattern = r["pattern"].as_str().unwrap();
    let Ok(pat) = Pattern::try_new(pattern, lang) else { return };
    let found = ag.root().dfs().find(|n| n.range() == range && n.kind() == kind);
    if let Some(n) = found {
      check_pair(lname, pattern, &pat, "replay", src, &n, rep);
    }
    return;
  }
  let mut rng = ctx.rng("c03");
  let per_file = if ctx.thorough { 700 } else { 100 };
  let cand_cap = if ctx.thorough { 400 } else { 120 };
  let n_mut = if ctx.thorough { 4 } else { 1 };
  let all = corpus::load_all();
  // shard by (language, file) round robin; candidates always come from the whole language corpus
  for lang in corpus::all_langs() {
    let lname = corpus::lang_name(lang);
    let files: Vec<&SrcFile> = all.iter().filter(|f| f.lang == lang).collect();
    let mine: Vec<&SrcFile> = files.iter().enumerate().filter(|(i, _)| (i + lang as usize) % ctx.nshards == ctx.shard).map(|(_, f)| *f).collect();
    if mine.is_empty() {
      continue;
    }
    // candidate documents: originals + mutated copies (renamed token, inserted sibling/comment, trailing comma)
    let mut docs: Vec<Doc> = vec![];
    for f in &files {
      docs.push(Doc { name: f.name.clone(), ag: lang.ast_grep(&f.text) });
      for k in 0..n_mut {
        let m = MUTATIONS[rng.below(MUTATIONS.len())];
        let t = corpus::mutate(&f.text, m, &mut rng);
        docs.push(Doc { name: format!("{}#{:?}{k}", f.name, m), ag: lang.ast_grep(&t) });
      }
    }
    let mut by_kind: HashMap<u16, Vec<(usize, N)>> = HashMap::new();
    let mut any: Vec<(usize, N)> = vec![];
    for (di, d) in docs.iter().enumerate() {
      for n in d.ag.root().dfs() {
        if n.range().len() > 600 {
          continue;
        }
        by_kind.entry(n.kind_id()).or_default().push((di, n.clone()));
        if any.len() < 20000 && n.is_named() {
          any.push((di, n));
        }
      }
    }
    for f in mine {
      let grep = lang.ast_grep(&f.text);
      let root = grep.root();
      let mut sites = gen::cut_sites(&root, 300);
      if sites.is_empty() {
        continue;
      }
      rng.shuffle(&mut sites);
      let mut made = 0;
      let mut idx = 0;
      while made < per_file && idx < sites.len() * 2 {
        let node = &sites[idx % sites.len()];
        idx += 1;
        let cut = match rng.below(7) {
          0 => gen::cut_singles(node, 0, &mut rng),
          5 | 6 => gen::cut_trailing(node, &mut rng),
          k => gen::cut_singles(node, k.min(3), &mut rng),
        };
        let Some(cut) = cut else { continue };
        let Ok(pat) = Pattern::try_new(&cut.pattern, lang) else { continue };
        made += 1;
        rep.count("patterns", 1);
        // candidates: same kind (near misses), a few of arbitrary kinds
        let mut cands: Vec<&(usize, N)> = vec![];
        if let Some(k) = root_kind(&pat.node) {
          if let Some(v) = by_kind.get(&k) {
            if v.len() <= cand_cap {
              cands.extend(v.iter());
            } else {
              for _ in 0..cand_cap {
                cands.push(&v[rng.below(v.len())]);
              }
            }
          }
        }
        for _ in 0..8 {
          if !any.is_empty() {
            cands.push(&any[rng.below(any.len())]);
          }
        }
        let mut matches = 0;
        for (di, n) in cands {
          let d = &docs[*di];
          matches += check_pair(&lname, &cut.pattern, &pat, &d.name, d.ag.source(), n, rep);
        }
        rep.count("impl_matches", matches as u64);
        rep.count(&format!("lang.{lname}"), 1);
        if rep.samples.len() < 5 && matches > 5 {
          rep.sample(json!({"lang": lname, "pattern": clip(&cut.pattern, 140), "implementation_matches_over_5_levels": matches}));
        }
      }
    }
  }
}
