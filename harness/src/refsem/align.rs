//! C03: the most permissive alignment relation allowed by the documented strictness rules
//! (implementation ⊆ relation must hold), and C02's structural "same tree shape" premise.
use crate::util::N;
use ast_grep_core::matcher::PatternNode;
use ast_grep_core::meta_var::MetaVariable;

#[derive(Clone, Copy, PartialEq, Debug)]
pub enum S {
  Cst,
  Smart,
  Ast,
  Relaxed,
  Signature,
}
pub const ALL_S: [S; 5] = [S::Cst, S::Smart, S::Ast, S::Relaxed, S::Signature];

impl S {
  pub fn name(&self) -> &'static str {
    match self {
      S::Cst => "cst",
      S::Smart => "smart",
      S::Ast => "ast",
      S::Relaxed => "relaxed",
      S::Signature => "signature",
    }
  }
  pub fn to_impl(&self) -> ast_grep_core::MatchStrictness {
    use ast_grep_core::MatchStrictness as M;
    match self {
      S::Cst => M::Cst,
      S::Smart => M::Smart,
      S::Ast => M::Ast,
      S::Relaxed => M::Relaxed,
      S::Signature => M::Signature,
    }
  }
}

const ERROR_KIND: u16 = 65535;

fn is_comment(n: &N) -> bool {
  n.is_named() && n.kind().contains("comment")
}

fn kinds_ok(goal: u16, cand: u16) -> bool {
  goal == cand || goal == ERROR_KIND
}

fn cand_skippable(n: &N, s: S) -> bool {
  match s {
    S::Cst => false,
    S::Smart | S::Ast => !n.is_named(),
    S::Relaxed | S::Signature => !n.is_named() || is_comment(n),
  }
}

fn goal_skippable(p: &PatternNode, s: S) -> bool {
  match p {
    PatternNode::MetaVar { meta_var } => match meta_var {
      MetaVariable::Multiple | MetaVariable::MultiCapture(_) => true,
      MetaVariable::Dropped(named) | MetaVariable::Capture(_, named) => !named && !matches!(s, S::Cst | S::Smart),
    },
    PatternNode::Terminal { is_named, .. } => !is_named && !matches!(s, S::Cst | S::Smart),
    PatternNode::Internal { .. } => false,
  }
}

fn is_ellipsis(p: &PatternNode) -> bool {
  matches!(
    p,
    PatternNode::MetaVar {
      meta_var: MetaVariable::Multiple | MetaVariable::MultiCapture(_)
    }
  )
}

pub fn legal(p: &PatternNode, n: &N, s: S) -> bool {
  legal_ex(p, n, s, false)
}

/// `lax_after_ellipsis` is a defect-emulation switch (never on for a verdict): unnamed pattern
/// tokens that directly follow a `$$$` may stay unmatched at every strictness.
pub fn legal_ex(p: &PatternNode, n: &N, s: S, lax_after_ellipsis: bool) -> bool {
  let lax = lax_after_ellipsis;
  match p {
    PatternNode::MetaVar { meta_var } => match meta_var {
      MetaVariable::Capture(_, named) | MetaVariable::Dropped(named) => !*named || n.is_named(),
      _ => true,
    },
    PatternNode::Terminal { text, is_named, kind_id } => {
      kinds_ok(*kind_id, n.kind_id()) && (!*is_named || s == S::Signature || *text == n.text())
    }
    PatternNode::Internal { kind_id, children } => {
      if !kinds_ok(*kind_id, n.kind_id()) {
        return false;
      }
      let cands: Vec<N> = n.children().collect();
      if cands.is_empty() {
        return false;
      }
      if children.is_empty() {
        // a pattern node without children (zero-width parser artefact, ast-grep#1688) constrains
        // nothing but the kind: most permissive reading
        return true;
      }
      let mut memo = vec![vec![[None::<bool>; 2]; cands.len() + 1]; children.len() + 1];
      let mut after = vec![false; children.len()];
      if lax {
        let mut seen = false;
        for (i, c) in children.iter().enumerate() {
          if is_ellipsis(c) {
            seen = true;
          } else if seen && c.is_trivial() {
            after[i] = true;
          } else {
            seen = false;
          }
        }
      }
      go(children, &cands, 0, 0, 0, s, &mut memo, &after, lax)
    }
  }
}

#[allow(clippy::too_many_arguments)]
fn go(g: &[PatternNode], c: &[N], i: usize, j: usize, aligned: usize, s: S, memo: &mut Vec<Vec<[Option<bool>; 2]>>, after: &[bool], lax: bool) -> bool {
  if let Some(v) = memo[i][j][aligned] {
    return v;
  }
  let r = (|| {
    if i == g.len() {
      // candidates after the aligned region: unconstrained under smart, else all skippable
      return c[j..].iter().all(|n| cand_skippable(n, s) || (s == S::Smart && aligned == 1));
    }
    if (goal_skippable(&g[i], s) || after[i]) && go(g, c, i + 1, j, aligned, s, memo, after, lax) {
      return true;
    }
    if j == c.len() {
      return false;
    }
    if cand_skippable(&c[j], s) && go(g, c, i, j + 1, aligned, s, memo, after, lax) {
      return true;
    }
    if is_ellipsis(&g[i]) {
      return go(g, c, i, j + 1, 1, s, memo, after, lax) || go(g, c, i + 1, j + 1, 1, s, memo, after, lax);
    }
    legal_ex(&g[i], &c[j], s, lax) && go(g, c, i + 1, j + 1, 1, s, memo, after, lax)
  })();
  memo[i][j][aligned] = Some(r);
  r
}

/// One binding found by the structural shape check.
#[derive(Debug, Clone)]
pub enum Bound {
  Single { name: String, range: std::ops::Range<usize>, named: bool },
  Multi { name: String, ranges: Vec<std::ops::Range<usize>> },
}

/// C02 premise: the pattern tree has the same shape as the node, with holes exactly in place of
/// sub-trees. Returns the bindings the shape implies.
pub fn shape(p: &PatternNode, n: &N, out: &mut Vec<Bound>) -> bool {
  match p {
    PatternNode::MetaVar { meta_var } => match meta_var {
      MetaVariable::Capture(name, _) => {
        out.push(Bound::Single { name: name.clone(), range: n.range(), named: n.is_named() });
        true
      }
      _ => false,
    },
    PatternNode::Terminal { text, kind_id, .. } => *kind_id == n.kind_id() && n.is_leaf() && *text == n.text(),
    PatternNode::Internal { kind_id, children } => {
      if *kind_id != n.kind_id() {
        return false;
      }
      let c: Vec<N> = n.children().filter(|c| !c.get_ts_node().is_missing()).collect();
      if let Some(e) = children.iter().position(is_ellipsis) {
        // prefix, one named ellipsis, suffix
        let PatternNode::MetaVar { meta_var: MetaVariable::MultiCapture(name) } = &children[e] else {
          return false;
        };
        let tail = children.len() - e - 1;
        if children[e + 1..].iter().any(is_ellipsis) || c.len() < e + tail {
          return false;
        }
        let run = &c[e..c.len() - tail];
        if !children[..e].iter().zip(c[..e].iter()).all(|(p, c)| shape(p, c, out)) {
          return false;
        }
        if !children[e + 1..].iter().zip(c[c.len() - tail..].iter()).all(|(p, c)| shape(p, c, out)) {
          return false;
        }
        out.push(Bound::Multi { name: name.clone(), ranges: run.iter().filter(|x| x.is_named()).map(|x| x.range()).collect() });
        true
      } else {
        c.len() == children.len() && children.iter().zip(c.iter()).all(|(p, c)| shape(p, c, out))
      }
    }
  }
}
