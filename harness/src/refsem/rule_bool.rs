//! C05 reference: what the rule reference says a rule object means, as a recursive boolean
//! evaluator over `parent()` / `children()` / `next()` / `prev()` only (no cursors, no
//! `ancestors()`, no `next_all()`).
use super::rule::{Stop, R};
use crate::util::N;
use ast_grep_core::matcher::MatcherExt;
use ast_grep_core::Pattern;
use ast_grep_language::SupportLang;
use std::collections::HashMap;

/// defect-emulation switches: never on for a verdict, only to attribute a disagreement
#[derive(Clone, Copy, Default, PartialEq, Debug)]
pub struct Emu {
  /// enumerate earlier siblings (stopBy end/rule) with the implementation's prev_all()
  pub cursor_prev_all: bool,
  /// enumerate later siblings (stopBy end/rule) with the implementation's next_all()
  pub cursor_next_all: bool,
  /// nthChild.ofRule keeps the node *returned* by the sub-rule (a relational rule returns the
  /// other node), and the position is looked up among those
  pub of_rule_returned_node: bool,
}

pub struct Ctx<'s> {
  pub src: &'s str,
  pub lang: SupportLang,
  pub utils: HashMap<String, R>,
  pub patterns: HashMap<String, Pattern<SupportLang>>,
  pub regexes: HashMap<String, regex::Regex>,
  pub emu: Emu,
  /// set when an inspected parent has more than one child labelled with the requested field:
  /// the statement gives no meaning to that case, so the evaluation carries no verdict
  pub ambiguous: std::cell::Cell<bool>,
  line_starts: Vec<usize>,
}

impl<'s> Ctx<'s> {
  pub fn new(src: &'s str, lang: SupportLang) -> Self {
    Ctx { src, lang, utils: HashMap::new(), patterns: HashMap::new(), regexes: HashMap::new(), emu: Emu::default(), ambiguous: std::cell::Cell::new(false), line_starts: std::iter::once(0).chain(src.bytes().enumerate().filter(|(_, b)| *b == b'\n').map(|(i, _)| i + 1)).collect() }
  }
  /// zero-based line and character column of a byte offset (same meaning as util::line_col)
  pub fn line_col(&self, off: usize) -> (usize, usize) {
    let line = match self.line_starts.binary_search(&off) {
      Ok(i) => i,
      Err(i) => i - 1,
    };
    let ls = self.line_starts[line];
    (line, self.src[ls..off.min(self.src.len())].chars().count())
  }
  /// compile atoms (patterns are delegated to the real Pattern: judged by C02/C03)
  pub fn prepare(&mut self, r: &R) -> Result<(), String> {
    let mut err = None;
    let mut pats = vec![];
    let mut res = vec![];
    r.walk(&mut |x| match x {
      R::Pattern(p) => pats.push((p.clone(), None, None)),
      R::PatternObj { context, selector, strictness } => pats.push((context.clone(), selector.clone(), strictness.clone())),
      R::Regex(x) => res.push(x.clone()),
      _ => {}
    });
    for (p, sel, strict) in pats {
      let key = pat_key(&p, sel.as_deref(), strict.as_deref());
      if self.patterns.contains_key(&key) {
        continue;
      }
      let built = match &sel {
        Some(s) => Pattern::contextual(&p, s, self.lang),
        None => Pattern::try_new(&p, self.lang),
      };
      match built {
        Ok(mut pat) => {
          if let Some(st) = &strict {
            pat = pat.with_strictness(st.parse().map_err(|e: &str| e.to_string())?);
          }
          self.patterns.insert(key, pat);
        }
        Err(e) => err = Some(format!("pattern {p:?}: {e}")),
      }
    }
    for x in res {
      if !self.regexes.contains_key(&x) {
        match regex::Regex::new(&x) {
          Ok(re) => {
            self.regexes.insert(x, re);
          }
          Err(e) => err = Some(format!("regex {x:?}: {e}")),
        }
      }
    }
    match err {
      Some(e) => Err(e),
      None => Ok(()),
    }
  }
}

pub fn pat_key(p: &str, sel: Option<&str>, strict: Option<&str>) -> String {
  format!("{p}\u{1}{}\u{1}{}", sel.unwrap_or(""), strict.unwrap_or(""))
}

fn kids<'a>(n: &N<'a>) -> Vec<N<'a>> {
  n.children().collect()
}

/// position of `n` among the children of its parent (children() is the C19 baseline)
fn sibling_split<'a>(n: &N<'a>) -> Option<(Vec<N<'a>>, usize)> {
  let p = n.parent()?;
  let sibs = kids(&p);
  let i = sibs.iter().position(|c| c.node_id() == n.node_id())?;
  Some((sibs, i))
}

/// later siblings, nearest first
fn later<'a>(n: &N<'a>, ctx: &Ctx) -> Vec<N<'a>> {
  if ctx.emu.cursor_next_all {
    return n.next_all().collect();
  }
  match sibling_split(n) {
    Some((sibs, i)) => sibs[i + 1..].to_vec(),
    None => vec![],
  }
}
/// earlier siblings, nearest first
fn earlier<'a>(n: &N<'a>, ctx: &Ctx) -> Vec<N<'a>> {
  if ctx.emu.cursor_prev_all {
    return n.prev_all().collect();
  }
  match sibling_split(n) {
    Some((sibs, i)) => sibs[..i].iter().rev().cloned().collect(),
    None => vec![],
  }
}

/// candidates limited by stopBy, nearest first: all (`end`), the first (`neighbor`), or up to and
/// including the first one that satisfies the stop rule
fn limited<'a>(cands: Vec<N<'a>>, stop: &Stop, ctx: &Ctx) -> Vec<N<'a>> {
  match stop {
    Stop::End => cands,
    Stop::Neighbor => cands.into_iter().take(1).collect(),
    Stop::Rule(st) => {
      let mut out = vec![];
      for c in cands {
        let stop_here = holds(st, &c, ctx);
        out.push(c);
        if stop_here {
          break;
        }
      }
      out
    }
  }
}

fn field_child<'a>(p: &N<'a>, field: &str, ctx: &Ctx) -> Option<N<'a>> {
  if p.field_children(field).count() > 1 {
    ctx.ambiguous.set(true);
  }
  p.field(field)
}

/// the node a rule "returns" in the implementation (only used by the of_rule emulation)
fn returned<'a>(r: &R, n: &N<'a>, ctx: &Ctx) -> Option<N<'a>> {
  match r {
    R::Inside(x, s, f) => inside_witness(x, s, f.as_deref(), n, ctx),
    R::Has(x, s, f) => has_witness(x, s, f.as_deref(), n, ctx),
    R::Precedes(x, s) => limited(match s { Stop::Neighbor => n.next().into_iter().collect(), _ => later(n, ctx) }, s, ctx).into_iter().find_map(|c| returned(x, &c, ctx)),
    R::Follows(x, s) => limited(match s { Stop::Neighbor => n.prev().into_iter().collect(), _ => earlier(n, ctx) }, s, ctx).into_iter().find_map(|c| returned(x, &c, ctx)),
    R::Matches(u) => ctx.utils.get(u).and_then(|r| returned(r, n, ctx)),
    R::Obj(v) if v.len() == 1 => returned(&v[0], n, ctx),
    other => holds(other, n, ctx).then(|| n.clone()),
  }
}

fn inside_witness<'a>(x: &R, s: &Stop, field: Option<&str>, n: &N<'a>, ctx: &Ctx) -> Option<N<'a>> {
  let mut anc = vec![];
  let mut cur = n.parent();
  while let Some(p) = cur {
    cur = p.parent();
    anc.push(p);
  }
  if let Some(f) = field {
    // an ancestor within the stopBy limit whose `field` child is the node or lies on the path to it
    let mut below = n.clone();
    for p in limited(anc, s, ctx) {
      let on_path = field_child(&p, f, ctx).map(|c| c.node_id() == below.node_id()).unwrap_or(false);
      below = p.clone();
      if on_path {
        if let Some(w) = returned(x, &p, ctx) {
          return Some(w);
        }
      }
    }
    return None;
  }
  limited(anc, s, ctx).into_iter().find_map(|p| returned(x, &p, ctx))
}

fn has_witness<'a>(x: &R, s: &Stop, field: Option<&str>, n: &N<'a>, ctx: &Ctx) -> Option<N<'a>> {
  // candidates: the children, or with `field` the one child labelled so; below each candidate the
  // search continues as far as stopBy allows (inclusive of a node satisfying the stop rule)
  fn go<'a>(x: &R, s: &Stop, cands: Vec<N<'a>>, ctx: &Ctx) -> Option<N<'a>> {
    for c in cands {
      if let Some(w) = returned(x, &c, ctx) {
        return Some(w);
      }
      let deeper = match s {
        Stop::Neighbor => false,
        Stop::End => true,
        Stop::Rule(st) => !holds(st, &c, ctx),
      };
      if deeper {
        if let Some(w) = go(x, s, kids(&c), ctx) {
          return Some(w);
        }
      }
    }
    None
  }
  match field {
    Some(f) => go(x, s, field_child(n, f, ctx).into_iter().collect(), ctx),
    None => go(x, s, kids(n), ctx),
  }
}

pub fn holds(r: &R, n: &N, ctx: &Ctx) -> bool {
  match r {
    R::Obj(v) | R::All(v) => v.iter().all(|x| holds(x, n, ctx)),
    R::Any(v) => v.iter().any(|x| holds(x, n, ctx)),
    R::Not(x) => !holds(x, n, ctx),
    R::Pattern(p) => ctx.patterns[&pat_key(p, None, None)].match_node(n.clone()).is_some(),
    R::PatternObj { context, selector, strictness } => ctx.patterns[&pat_key(context, selector.as_deref(), strictness.as_deref())].match_node(n.clone()).is_some(),
    R::Kind(k) => n.is_named() && n.kind() == k.as_str(),
    R::Regex(x) => ctx.regexes[x].is_match(&n.text()),
    R::Range(a, b, c, d) => ctx.line_col(n.range().start) == (*a, *b) && ctx.line_col(n.range().end) == (*c, *d),
    R::Nth { a, b, reverse, of, .. } => {
      let Some(p) = n.parent() else { return false };
      let named: Vec<N> = kids(&p).into_iter().filter(|c| c.is_named()).collect();
      let mut sibs: Vec<N> = match of {
        None => named,
        Some(o) if ctx.emu.of_rule_returned_node => named.iter().filter_map(|c| returned(o, c, ctx)).collect(),
        Some(o) => named.into_iter().filter(|c| holds(o, c, ctx)).collect(),
      };
      if *reverse {
        sibs.reverse();
      }
      let Some(i) = sibs.iter().position(|c| c.node_id() == n.node_id()) else { return false };
      let i = i as i64 + 1;
      if *a == 0 {
        i == *b
      } else {
        (i - b) % a == 0 && (i - b) / a >= 0
      }
    }
    R::Inside(x, s, f) => inside_witness(x, s, f.as_deref(), n, ctx).is_some(),
    R::Has(x, s, f) => has_witness(x, s, f.as_deref(), n, ctx).is_some(),
    R::Precedes(..) | R::Follows(..) => returned(r, n, ctx).is_some(),
    R::Matches(u) => match ctx.utils.get(u) {
      Some(r) => holds(r, n, ctx),
      None => false,
    },
  }
}
