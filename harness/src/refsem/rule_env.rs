//! C04 reference: rule evaluation with environments in purely functional style.
//! `eval(rule, node, env) -> Option<env>`: a failing alternative returns nothing and therefore
//! cannot leak. Atomic patterns are delegated to the real `Pattern::match_node_with_env` on a
//! fresh copy of the reference environment (atoms are judged by C02/C03); everything that
//! composes atoms is independent of the implementation.
use super::rule::{Stop, R};
use super::rule_bool::pat_key;
use crate::util::N;
use ast_grep_core::matcher::Matcher;
use ast_grep_core::meta_var::MetaVarEnv;
use ast_grep_core::{Pattern, StrDoc};
use ast_grep_language::SupportLang;
use std::borrow::Cow;
use std::collections::{BTreeMap, HashMap};

#[derive(Clone, Default)]
pub struct Env<'a> {
  pub single: BTreeMap<String, N<'a>>,
  pub multi: BTreeMap<String, Vec<N<'a>>>,
}

pub type ImplEnv<'a> = MetaVarEnv<'a, StrDoc<SupportLang>>;

impl<'a> Env<'a> {
  pub fn to_impl(&self) -> Option<ImplEnv<'a>> {
    let mut m = MetaVarEnv::new();
    for (k, v) in &self.single {
      m.insert(k, v.clone())?;
    }
    for (k, v) in &self.multi {
      m.insert_multi(k, v.clone())?;
    }
    Some(m)
  }
  /// comparable summary: name -> byte range(s)
  pub fn summary(&self) -> (BTreeMap<String, (usize, usize)>, BTreeMap<String, Vec<(usize, usize)>>) {
    (
      self.single.iter().map(|(k, v)| (k.clone(), (v.range().start, v.range().end))).collect(),
      self.multi.iter().map(|(k, v)| (k.clone(), v.iter().map(|n| (n.range().start, n.range().end)).collect())).collect(),
    )
  }
}

/// defect-emulation switches (attribution only)
#[derive(Clone, Copy, Default, Debug)]
pub struct Emu {
  /// `not` lets the bindings of its inner rule escape into the caller's environment, and
  /// relations/any-free loops hand the same environment to every candidate
  pub not_leaks: bool,
}

pub struct Ctx {
  pub lang: SupportLang,
  pub utils: HashMap<String, R>,
  pub patterns: HashMap<String, Pattern<SupportLang>>,
  pub regexes: HashMap<String, regex::Regex>,
  pub var_names: Vec<String>,
  pub emu: Emu,
  /// a global utility with constraints: `matches: <id>` means its rule, then its constraints, all or nothing
  pub global_cons: Option<(String, std::collections::BTreeMap<String, R>)>,
  /// set when an inspected parent has several children labelled with the requested field (no verdict then)
  pub ambiguous: std::cell::Cell<bool>,
}

impl Ctx {
  pub fn new(lang: SupportLang) -> Self {
    Ctx { lang, utils: HashMap::new(), patterns: HashMap::new(), regexes: HashMap::new(), var_names: vec![], emu: Emu::default(), global_cons: None, ambiguous: std::cell::Cell::new(false) }
  }
  pub fn prepare(&mut self, r: &R) -> Result<(), String> {
    let mut err = None;
    let mut pats = vec![];
    let mut res = vec![];
    r.walk(&mut |x| match x {
      R::Pattern(p) => pats.push(p.clone()),
      R::Regex(x) => res.push(x.clone()),
      _ => {}
    });
    for p in pats {
      let key = pat_key(&p, None, None);
      if self.patterns.contains_key(&key) {
        continue;
      }
      match Pattern::try_new(&p, self.lang) {
        Ok(pat) => {
          for v in pat.defined_vars() {
            if !self.var_names.iter().any(|x| x == v) {
              self.var_names.push(v.to_string());
            }
          }
          self.patterns.insert(key, pat);
        }
        Err(e) => err = Some(format!("pattern {p:?}: {e}")),
      }
    }
    for x in res {
      if !self.regexes.contains_key(&x) {
        match regex::Regex::new(&x) {
          Ok(re) => {
            self.regexes.insert(x, re);
          }
          Err(e) => err = Some(format!("regex {x:?}: {e}")),
        }
      }
    }
    match err {
      Some(e) => Err(e),
      None => Ok(()),
    }
  }
}

pub fn order_key(r: &R) -> usize {
  match r {
    R::Pattern(_) | R::PatternObj { .. } => 0,
    R::Kind(_) => 1,
    R::Regex(_) => 2,
    R::Nth { .. } => 3,
    R::Range(..) => 4,
    R::All(_) => 5,
    R::Any(_) => 6,
    R::Not(_) => 7,
    R::Matches(_) => 8,
    R::Inside(..) => 9,
    R::Has(..) => 10,
    R::Precedes(..) => 11,
    R::Follows(..) => 12,
    R::Obj(_) => 13,
  }
}

fn kids<'a>(n: &N<'a>) -> Vec<N<'a>> {
  n.children().collect()
}

fn siblings<'a>(n: &N<'a>) -> Option<(Vec<N<'a>>, usize)> {
  let p = n.parent()?;
  let s = kids(&p);
  let i = s.iter().position(|c| c.node_id() == n.node_id())?;
  Some((s, i))
}

/// boolean atoms shared with the boolean reference (kind, regex, nthChild without ofRule)
fn atom_holds(r: &R, n: &N, ctx: &Ctx) -> Option<bool> {
  Some(match r {
    R::Kind(k) => n.is_named() && n.kind() == k.as_str(),
    R::Regex(x) => ctx.regexes[x].is_match(&n.text()),
    R::Nth { a, b, reverse, of, .. } => {
      let Some(p) = n.parent() else { return Some(false) };
      // ofRule is only generated as a boolean atom (kind / regex) for this evaluator
      let mut sibs: Vec<N> = kids(&p).into_iter().filter(|c| c.is_named()).filter(|c| match of {
        None => true,
        Some(o) => atom_holds(o, c, ctx).unwrap_or(false),
      }).collect();
      if *reverse {
        sibs.reverse();
      }
      let Some(i) = sibs.iter().position(|c| c.node_id() == n.node_id()) else { return Some(false) };
      let i = i as i64 + 1;
      if *a == 0 {
        i == *b
      } else {
        (i - b) % a == 0 && (i - b) / a >= 0
      }
    }
    _ => return None,
  })
}

/// candidates of a relation in the documented order, limited by stopBy (inclusive)
fn limited<'a>(cands: Vec<N<'a>>, stop: &Stop, env: &Env<'a>, ctx: &Ctx) -> Vec<N<'a>> {
  match stop {
    Stop::End => cands,
    Stop::Neighbor => cands.into_iter().take(1).collect(),
    Stop::Rule(st) => {
      let mut out = vec![];
      for c in cands {
        // the stop rule is a pure test: it never contributes bindings
        let stop_here = eval(st, &c, &Env::default(), ctx).is_some();
        let _ = env;
        out.push(c);
        if stop_here {
          break;
        }
      }
      out
    }
  }
}

fn has_candidates<'a>(n: &N<'a>, stop: &Stop, env: &Env<'a>, ctx: &Ctx, out: &mut Vec<N<'a>>) {
  for c in kids(n) {
    out.push(c.clone());
    match stop {
      Stop::Neighbor => {}
      Stop::End => has_candidates(&c, stop, env, ctx, out),
      Stop::Rule(st) => {
        if eval(st, &c, &Env::default(), ctx).is_none() {
          has_candidates(&c, stop, env, ctx, out)
        }
      }
    }
  }
}

/// try candidates in order; with the `not_leaks` emulation the environment of a failed
/// candidate is carried into the next one (the implementation passes one `&mut` env along)
fn first_candidate<'a>(x: &R, cands: Vec<N<'a>>, env: &Env<'a>, ctx: &Ctx) -> Option<Env<'a>> {
  let mut cur = env.clone();
  for c in cands {
    let mut leaked = None;
    if let Some(e) = eval_leaky(x, &c, &cur, ctx, &mut leaked) {
      return Some(e);
    }
    if ctx.emu.not_leaks {
      if let Some(l) = leaked {
        cur = l;
      }
    }
  }
  None
}

pub fn eval<'a>(r: &R, n: &N<'a>, env: &Env<'a>, ctx: &Ctx) -> Option<Env<'a>> {
  let mut leaked = None;
  eval_leaky(r, n, env, ctx, &mut leaked)
}

/// `leaked`: (emulation only) the environment a failing evaluation leaves behind
fn eval_leaky<'a>(r: &R, n: &N<'a>, env: &Env<'a>, ctx: &Ctx, leaked: &mut Option<Env<'a>>) -> Option<Env<'a>> {
  if let Some(b) = atom_holds(r, n, ctx) {
    return b.then(|| env.clone());
  }
  match r {
    R::Pattern(p) => {
      let pat = &ctx.patterns[&pat_key(p, None, None)];
      let mut ienv = Cow::Owned(env.to_impl()?);
      pat.match_node_with_env(n.clone(), &mut ienv)?;
      let mut out = env.clone();
      for v in pat.defined_vars() {
        if let Some(x) = ienv.get_match(v) {
          out.single.insert(v.to_string(), x.clone());
        }
        // an ellipsis bound to the empty list is still a binding (a later occurrence must be empty too)
        let bound_multi = ienv.get_matched_variables().any(|mv| matches!(&mv, ast_grep_core::meta_var::MetaVariable::MultiCapture(name) if name == v));
        if bound_multi {
          out.multi.insert(v.to_string(), ienv.get_multiple_matches(v));
        }
      }
      Some(out)
    }
    R::Obj(v) => {
      let mut parts: Vec<&R> = v.iter().collect();
      parts.sort_by_key(|p| order_key(p));
      let mut e = env.clone();
      for x in parts {
        let mut l = None;
        match eval_leaky(x, n, &e, ctx, &mut l) {
          Some(e2) => e = e2,
          None => return None, // all-like: the implementation drops the scratch env on failure
        }
      }
      Some(e)
    }
    R::All(v) => {
      let mut e = env.clone();
      for x in v {
        let mut l = None;
        e = eval_leaky(x, n, &e, ctx, &mut l)?;
      }
      Some(e)
    }
    R::Any(v) => v.iter().find_map(|x| eval(x, n, env, ctx)),
    R::Not(x) => {
      let mut l = None;
      match eval_leaky(x, n, env, ctx, &mut l) {
        Some(inner) => {
          if ctx.emu.not_leaks {
            *leaked = Some(inner);
          }
          None
        }
        None => {
          if ctx.emu.not_leaks {
            if let Some(l) = l {
              // inner failed but left bindings behind; `not` then succeeds WITH them
              return Some(l);
            }
          }
          Some(env.clone())
        }
      }
    }
    R::Matches(u) => {
      let rule = ctx.utils.get(u)?;
      let mut e = eval_leaky(rule, n, env, ctx, leaked)?;
      if let Some((id, cons)) = &ctx.global_cons {
        if id == u {
          // a failing constraint makes the utility fail as a whole: nothing of it survives
          for (var, c) in cons {
            if let Some(b) = e.single.get(var).cloned() {
              e = eval(c, &b, &e, ctx)?;
            }
          }
        }
      }
      Some(e)
    }
    R::Inside(x, s, f) => {
      let mut anc = vec![];
      let mut cur = n.parent();
      while let Some(p) = cur {
        cur = p.parent();
        anc.push(p);
      }
      let mut cands = limited(anc, s, env, ctx);
      if let Some(f) = f {
        // only ancestors whose `field` child is the node or lies on the path to it
        let mut below = n.clone();
        let mut kept = vec![];
        for p in cands {
          if p.field_children(f).count() > 1 {
            ctx.ambiguous.set(true);
          }
          if p.field(f).map(|c| c.node_id() == below.node_id()).unwrap_or(false) {
            kept.push(p.clone());
          }
          below = p;
        }
        cands = kept;
      }
      first_candidate(x, cands, env, ctx)
    }
    R::Has(x, s, f) => {
      let mut c = vec![];
      match f {
        None => has_candidates(n, s, env, ctx, &mut c),
        Some(f) => {
          if n.field_children(f).count() > 1 {
            ctx.ambiguous.set(true);
          }
          if let Some(fc) = n.field(f) {
            c.push(fc.clone());
            let deeper = match s {
              Stop::Neighbor => false,
              Stop::End => true,
              Stop::Rule(st) => eval(st, &fc, &Env::default(), ctx).is_none(),
            };
            if deeper {
              has_candidates(&fc, s, env, ctx, &mut c);
            }
          }
        }
      }
      first_candidate(x, c, env, ctx)
    }
    R::Precedes(x, s) => {
      let c = match siblings(n) {
        Some((sibs, i)) => sibs[i + 1..].to_vec(),
        None => vec![],
      };
      first_candidate(x, limited(c, s, env, ctx), env, ctx)
    }
    R::Follows(x, s) => {
      let c = match siblings(n) {
        Some((sibs, i)) => sibs[..i].iter().rev().cloned().collect(),
        None => vec![],
      };
      first_candidate(x, limited(c, s, env, ctx), env, ctx)
    }
    _ => None,
  }
}

// ---------------------------------------------------------------------------------------------
// Defect emulation (attribution only, never a verdict): one mutable environment threaded through
// the evaluation, with two switches for the two places where a FAILING sub-evaluation keeps its
// writes: `not` (inner rule evaluated directly on the caller's environment) and a global utility
// whose constraints fail after its rule has bound variables.
#[derive(Clone, Copy, Default, Debug, PartialEq)]
pub struct Leaks {
  pub not_direct: bool,
  pub global_direct: bool,
}

pub struct GlobalUtil<'r> {
  pub id: &'r str,
  pub rule: &'r R,
  pub constraints: &'r BTreeMap<String, R>,
}

pub fn emu_eval<'a>(r: &R, n: &N<'a>, env: &mut Env<'a>, ctx: &Ctx, lk: Leaks, g: Option<&GlobalUtil>) -> bool {
  if let Some(b) = atom_holds(r, n, ctx) {
    return b;
  }
  match r {
    R::Pattern(_) => match eval(r, n, env, ctx) {
      Some(e) => {
        *env = e;
        true
      }
      None => false,
    },
    R::Obj(v) | R::All(v) => {
      let mut parts: Vec<&R> = v.iter().collect();
      if matches!(r, R::Obj(_)) {
        parts.sort_by_key(|p| order_key(p));
      }
      let mut scratch = env.clone();
      for x in parts {
        if !emu_eval(x, n, &mut scratch, ctx, lk, g) {
          return false;
        }
      }
      *env = scratch;
      true
    }
    R::Any(v) => {
      for x in v {
        let mut scratch = env.clone();
        if emu_eval(x, n, &mut scratch, ctx, lk, g) {
          *env = scratch;
          return true;
        }
      }
      false
    }
    R::Not(x) => {
      if lk.not_direct {
        !emu_eval(x, n, env, ctx, lk, g)
      } else {
        let mut scratch = env.clone();
        !emu_eval(x, n, &mut scratch, ctx, lk, g)
      }
    }
    R::Matches(u) => {
      if let Some(gu) = g {
        if gu.id == u {
          let mut scratch = env.clone();
          let target: &mut Env<'a> = if lk.global_direct { &mut *env } else { &mut scratch };
          if !emu_eval(gu.rule, n, target, ctx, lk, None) {
            return false;
          }
          for (var, c) in gu.constraints {
            if let Some(b) = target.single.get(var).cloned() {
              if !emu_eval(c, &b, target, ctx, lk, None) {
                return false;
              }
            }
          }
          if !lk.global_direct {
            *env = scratch;
          }
          return true;
        }
      }
      match ctx.utils.get(u) {
        Some(rule) => emu_eval(rule, n, env, ctx, lk, g),
        None => false,
      }
    }
    R::Inside(x, s, _) => {
      let mut anc = vec![];
      let mut cur = n.parent();
      while let Some(p) = cur {
        cur = p.parent();
        anc.push(p);
      }
      let cands = limited(anc, s, env, ctx);
      cands.into_iter().any(|c| emu_eval(x, &c, env, ctx, lk, g))
    }
    R::Has(x, s, _) => {
      let mut c = vec![];
      has_candidates(n, s, env, ctx, &mut c);
      c.into_iter().any(|c| emu_eval(x, &c, env, ctx, lk, g))
    }
    R::Precedes(x, s) => {
      let c = match siblings(n) {
        Some((sibs, i)) => sibs[i + 1..].to_vec(),
        None => vec![],
      };
      limited(c, s, env, ctx).into_iter().any(|c| emu_eval(x, &c, env, ctx, lk, g))
    }
    R::Follows(x, s) => {
      let c = match siblings(n) {
        Some((sibs, i)) => sibs[..i].iter().rev().cloned().collect(),
        None => vec![],
      };
      limited(c, s, env, ctx).into_iter().any(|c| emu_eval(x, &c, env, ctx, lk, g))
    }
    _ => false,
  }
}
