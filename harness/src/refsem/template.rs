//! C07 reference: template scanner and the documented indentation model.
//! Scanner: a run of 1-2 sigils followed by a name is a single-capture variable, a run of 3 a
//! multi-capture variable; a name is the maximal [A-Z_][A-Z0-9_]*; everything else is literal.
//! No verdict (None) for sigil runs longer than 3, digit-first and `_`-first names.

#[derive(Debug, Clone, PartialEq)]
pub enum Piece {
  Lit(String),
  Var { name: String, multi: bool, slot_indent: usize },
}

fn line_indent_before(tpl: &[char], pos: usize) -> usize {
  // number of spaces at the start of the template line that contains `pos`
  let mut ls = pos;
  while ls > 0 && tpl[ls - 1] != '\n' {
    ls -= 1;
  }
  let mut n = 0;
  while ls + n < pos && tpl[ls + n] == ' ' {
    n += 1;
  }
  n
}

pub fn scan(tpl: &str) -> Option<Vec<Piece>> {
  let cs: Vec<char> = tpl.chars().collect();
  let mut out: Vec<Piece> = vec![];
  let mut lit = String::new();
  let mut i = 0;
  while i < cs.len() {
    if cs[i] != '$' {
      lit.push(cs[i]);
      i += 1;
      continue;
    }
    let mut k = 0;
    while i + k < cs.len() && cs[i + k] == '$' {
      k += 1;
    }
    if k > 3 {
      return None;
    }
    let mut j = i + k;
    let ns = j;
    if j < cs.len() && (cs[j].is_ascii_uppercase() || cs[j] == '_') {
      while j < cs.len() && (cs[j].is_ascii_uppercase() || cs[j] == '_' || cs[j].is_ascii_digit()) {
        j += 1;
      }
    }
    let name: String = cs[ns..j].iter().collect();
    if name.is_empty() {
      if j < cs.len() && cs[j].is_ascii_digit() {
        return None;
      }
      for _ in 0..k {
        lit.push('$');
      }
      i += k;
      continue;
    }
    if name.starts_with('_') {
      return None;
    }
    if !lit.is_empty() {
      out.push(Piece::Lit(std::mem::take(&mut lit)));
    }
    out.push(Piece::Var { name, multi: k == 3, slot_indent: line_indent_before(&cs, i) });
    i = j;
  }
  if !lit.is_empty() {
    out.push(Piece::Lit(lit));
  }
  Some(out)
}

fn leading_spaces(line: &str) -> usize {
  line.chars().take_while(|c| *c == ' ').count()
}

/// Does a captured text satisfy the statement's restriction (spaces only, no blank or
/// under-indented continuation lines, relative to the indentation `c` of the capture's first line)?
pub fn capture_in_scope(text: &str, c: usize) -> bool {
  if text.contains('\t') || text.contains('\r') {
    return false;
  }
  text.split('\n').skip(1).all(|l| !l.trim().is_empty() && leading_spaces(l) >= c)
}

/// re-indent a captured text: continuation lines move from indentation in_i to in_i - c + t
pub fn reindent_capture(text: &str, c: usize, t: usize) -> String {
  let mut out = String::new();
  for (i, l) in text.split('\n').enumerate() {
    if i == 0 {
      out.push_str(l);
      continue;
    }
    out.push('\n');
    let ind = leading_spaces(l);
    let new = ind + t - c.min(ind + t);
    let new = if ind >= c { ind - c + t } else { new };
    out.push_str(&" ".repeat(new));
    out.push_str(&l[ind..]);
  }
  out
}

/// the whole replacement: pieces expanded, then every line after the first shifted by `m`
pub fn expand(pieces: &[Piece], lookup: &dyn Fn(&str, bool) -> Option<(String, usize)>, m: usize) -> String {
  let mut s = String::new();
  for p in pieces {
    match p {
      Piece::Lit(l) => s.push_str(l),
      Piece::Var { name, multi, slot_indent } => {
        if let Some((text, c)) = lookup(name, *multi) {
          s.push_str(&reindent_capture(&text, c, *slot_indent));
        }
      }
    }
  }
  if m == 0 || !s.contains('\n') {
    return s;
  }
  let mut out = String::new();
  for (i, l) in s.split('\n').enumerate() {
    if i > 0 {
      out.push('\n');
      out.push_str(&" ".repeat(m));
    }
    out.push_str(l);
  }
  out
}

/// indentation (leading spaces) of the line that contains byte offset `off`
pub fn line_indent_at(src: &str, off: usize) -> usize {
  let ls = src[..off].rfind('\n').map(|i| i + 1).unwrap_or(0);
  src[ls..off].chars().take_while(|c| *c == ' ').count()
}
