//! Reference semantics: independent, deliberately simple evaluators of what the
//! documentation says. Trusted base of most monitors.
pub mod align;
pub mod rule;
pub mod rule_bool;
pub mod rule_env;
pub mod template;
