//! Rule AST shared by the reference evaluators (C05 boolean, C04 with environments),
//! its JSON/YAML emission, and the random rule generator.
use crate::rng::Rng;
use crate::util::{line_col, N};
use serde_json::{json, Map, Value};

#[derive(Clone, Debug)]
pub enum Stop {
  Neighbor,
  End,
  Rule(Box<R>),
}

#[derive(Clone, Debug)]
pub enum R {
  /// one YAML object with several distinct keys = conjunction on the same node
  Obj(Vec<R>),
  Pattern(String),
  /// contextual pattern object {context, selector, strictness}
  PatternObj { context: String, selector: Option<String>, strictness: Option<String> },
  Kind(String),
  Regex(String),
  Range(usize, usize, usize, usize),
  Nth { a: i64, b: i64, reverse: bool, of: Option<Box<R>>, simple: bool },
  All(Vec<R>),
  Any(Vec<R>),
  Not(Box<R>),
  Inside(Box<R>, Stop, Option<String>),
  Has(Box<R>, Stop, Option<String>),
  Precedes(Box<R>, Stop),
  Follows(Box<R>, Stop),
  Matches(String),
}

impl R {
  pub fn key(&self) -> &'static str {
    match self {
      R::Obj(_) => "obj",
      R::Pattern(_) | R::PatternObj { .. } => "pattern",
      R::Kind(_) => "kind",
      R::Regex(_) => "regex",
      R::Range(..) => "range",
      R::Nth { .. } => "nthChild",
      R::All(_) => "all",
      R::Any(_) => "any",
      R::Not(_) => "not",
      R::Inside(..) => "inside",
      R::Has(..) => "has",
      R::Precedes(..) => "precedes",
      R::Follows(..) => "follows",
      R::Matches(_) => "matches",
    }
  }

  /// the rule as the JSON/YAML object ast-grep reads
  pub fn to_value(&self) -> Value {
    let mut m = Map::new();
    self.emit_into(&mut m);
    Value::Object(m)
  }

  fn emit_into(&self, m: &mut Map<String, Value>) {
    match self {
      R::Obj(v) => {
        for r in v {
          r.emit_into(m);
        }
      }
      R::Pattern(p) => {
        m.insert("pattern".into(), json!(p));
      }
      R::PatternObj { context, selector, strictness } => {
        let mut o = Map::new();
        o.insert("context".into(), json!(context));
        if let Some(s) = selector {
          o.insert("selector".into(), json!(s));
        }
        if let Some(s) = strictness {
          o.insert("strictness".into(), json!(s));
        }
        m.insert("pattern".into(), Value::Object(o));
      }
      R::Kind(k) => {
        m.insert("kind".into(), json!(k));
      }
      R::Regex(x) => {
        m.insert("regex".into(), json!(x));
      }
      R::Range(a, b, c, d) => {
        m.insert("range".into(), json!({"start": {"line": a, "column": b}, "end": {"line": c, "column": d}}));
      }
      R::Nth { a, b, reverse, of, simple } => {
        let pos = if *a == 0 && *b >= 0 {
          json!(b)
        } else if *a == 0 {
          json!(format!("{b}"))
        } else {
          let astr = match *a {
            1 => "n".to_string(),
            -1 => "-n".to_string(),
            a => format!("{a}n"),
          };
          if *b == 0 {
            json!(astr)
          } else {
            json!(format!("{astr}{}{}", if *b < 0 { "-" } else { "+" }, b.abs()))
          }
        };
        if *simple && !*reverse && of.is_none() {
          m.insert("nthChild".into(), pos);
        } else {
          let mut o = Map::new();
          o.insert("position".into(), pos);
          o.insert("reverse".into(), json!(reverse));
          if let Some(of) = of {
            o.insert("ofRule".into(), of.to_value());
          }
          m.insert("nthChild".into(), Value::Object(o));
        }
      }
      R::All(v) => {
        m.insert("all".into(), Value::Array(v.iter().map(|r| r.to_value()).collect()));
      }
      R::Any(v) => {
        m.insert("any".into(), Value::Array(v.iter().map(|r| r.to_value()).collect()));
      }
      R::Not(r) => {
        m.insert("not".into(), r.to_value());
      }
      R::Inside(r, s, f) => {
        m.insert("inside".into(), rel(r, s, f.as_deref()));
      }
      R::Has(r, s, f) => {
        m.insert("has".into(), rel(r, s, f.as_deref()));
      }
      R::Precedes(r, s) => {
        m.insert("precedes".into(), rel(r, s, None));
      }
      R::Follows(r, s) => {
        m.insert("follows".into(), rel(r, s, None));
      }
      R::Matches(u) => {
        m.insert("matches".into(), json!(u));
      }
    }
  }

  pub fn walk(&self, f: &mut dyn FnMut(&R)) {
    f(self);
    match self {
      R::Obj(v) | R::All(v) | R::Any(v) => v.iter().for_each(|r| r.walk(f)),
      R::Not(r) => r.walk(f),
      R::Nth { of: Some(o), .. } => o.walk(f),
      R::Inside(r, s, _) | R::Has(r, s, _) | R::Precedes(r, s) | R::Follows(r, s) => {
        r.walk(f);
        if let Stop::Rule(st) = s {
          st.walk(f);
        }
      }
      _ => {}
    }
  }

  pub fn operators(&self) -> Vec<&'static str> {
    let mut v = vec![];
    self.walk(&mut |r| {
      if !matches!(r, R::Obj(_)) {
        v.push(r.key())
      }
    });
    v
  }
}

fn rel(r: &R, s: &Stop, field: Option<&str>) -> Value {
  let mut m = Map::new();
  r.emit_into(&mut m);
  match s {
    Stop::Neighbor => {
      m.insert("stopBy".into(), json!("neighbor"));
    }
    Stop::End => {
      m.insert("stopBy".into(), json!("end"));
    }
    Stop::Rule(st) => {
      m.insert("stopBy".into(), st.to_value());
    }
  }
  if let Some(f) = field {
    m.insert("field".into(), json!(f));
  }
  Value::Object(m)
}

// ------------------------------------------------------------------ generator

/// leaves harvested from the file being scanned, so that rules are true on some nodes
pub struct Harvest {
  pub kinds: Vec<String>,
  pub patterns: Vec<String>,
  pub idents: Vec<String>,
  pub ranges: Vec<(usize, usize, usize, usize)>,
  pub fields: Vec<String>,
}

pub fn regex_escape(s: &str) -> String {
  let mut o = String::new();
  for c in s.chars() {
    if "\\.+*?()|[]{}^$#&-~".contains(c) {
      o.push('\\');
    }
    o.push(c);
  }
  o
}

pub fn harvest(root: &N, src: &str, patterns: Vec<String>, fields: Vec<String>, rng: &mut Rng) -> Harvest {
  let mut kinds = std::collections::BTreeSet::new();
  let mut idents = std::collections::BTreeSet::new();
  let mut ranges = vec![];
  for n in root.dfs() {
    if n.is_named() {
      kinds.insert(n.kind().to_string());
      if n.is_leaf() && n.range().len() <= 12 && !n.range().is_empty() {
        let t = n.text().to_string();
        if t.chars().all(|c| c.is_ascii_alphanumeric() || c == '_') {
          idents.insert(t);
        }
      }
      if rng.chance(1, 12) && ranges.len() < 40 {
        let (a, b) = line_col(src, n.range().start);
        let (c, d) = line_col(src, n.range().end);
        ranges.push((a, b, c, d));
      }
    }
  }
  Harvest {
    kinds: kinds.into_iter().collect(),
    patterns,
    idents: idents.into_iter().collect(),
    ranges,
    fields,
  }
}

pub struct GenCfg {
  /// counts pattern picks so that every pattern instance gets its own variable names
  pub picks: std::cell::Cell<usize>,
  /// when false, patterns keep the harvested names (C04 wants shared names)
  pub disjoint_vars: bool,
  pub max_depth: usize,
  pub utils: Vec<String>,
  pub allow_field: bool,
  pub allow_range: bool,
}

fn gen_stop(h: &Harvest, cfg: &GenCfg, depth: usize, rng: &mut Rng) -> Stop {
  match rng.below(5) {
    0 | 1 => Stop::Neighbor,
    2 | 3 => Stop::End,
    _ => Stop::Rule(Box::new(gen_atom_or_small(h, cfg, depth + 2, rng))),
  }
}

fn gen_atom(h: &Harvest, cfg: &GenCfg, rng: &mut Rng) -> R {
  loop {
    match rng.below(12) {
      0..=3 if !h.kinds.is_empty() => return R::Kind(rng.pick(&h.kinds).clone()),
      4..=6 if !h.patterns.is_empty() => {
        let p = rng.pick(&h.patterns).clone();
        if !cfg.disjoint_vars {
          return R::Pattern(p);
        }
        let k = cfg.picks.get();
        cfg.picks.set(k + 1);
        // $P<i>V<j> -> $P<i>X<k>V<j>, $$$W<i> -> $$$W<i>X<k>
        let re1 = regex::Regex::new(r"\$\$\$W(\d+)").unwrap();
        let re2 = regex::Regex::new(r"\$P(\d+)V(\d+)").unwrap();
        let p = re1.replace_all(&p, format!("$$$$$$W${{1}}X{k}").as_str()).to_string();
        let p = re2.replace_all(&p, format!("$$P${{1}}X{k}V${{2}}").as_str()).to_string();
        return R::Pattern(p);
      }
      7 if !h.idents.is_empty() => {
        let id = regex_escape(rng.pick(&h.idents).as_str());
        return R::Regex(match rng.below(4) {
          0 => format!("^{id}$"),
          1 => id,
          2 => format!("^{}", &id[..id.len().min(2)]),
          _ => "^[a-z_]+$".to_string(),
        });
      }
      8 if cfg.allow_range && !h.ranges.is_empty() => {
        let (a, b, c, d) = *rng.pick(&h.ranges);
        return if rng.chance(1, 4) { R::Range(a, b + 1, c, d + 1) } else { R::Range(a, b, c, d) };
      }
      9 | 10 => {
        let (a, b) = match rng.below(6) {
          0 => (0, rng.range(1, 4)),
          1 => (2, rng.range(-1, 2)),
          2 => (-1, rng.range(1, 4)),
          3 => (1, rng.range(0, 3)),
          4 => (3, rng.range(-2, 2)),
          _ => (0, rng.range(0, 2)),
        };
        let of = if rng.chance(1, 3) && !h.kinds.is_empty() { Some(Box::new(R::Kind(rng.pick(&h.kinds).clone()))) } else { None };
        return R::Nth { a, b, reverse: rng.chance(1, 3), of, simple: rng.chance(1, 2) };
      }
      11 if !cfg.utils.is_empty() => return R::Matches(rng.pick(&cfg.utils).clone()),
      _ => continue,
    }
  }
}

fn gen_atom_or_small(h: &Harvest, cfg: &GenCfg, depth: usize, rng: &mut Rng) -> R {
  if depth >= cfg.max_depth || rng.chance(2, 3) {
    gen_atom(h, cfg, rng)
  } else {
    gen_rule(h, cfg, depth, rng)
  }
}

/// A utility that refers to itself (or to `other`) below a relation, next to a kinded alternative in an
/// `any`/`all`: legal recursion (`wraps: {kind: K, has: {any: [{kind: K2}, {matches: wraps}]}}`), and the
/// shape whose kind caches are computed while the referenced utility is not registered yet.
pub fn gen_recursive_util(h: &Harvest, name: &str, other: Option<&String>, rng: &mut Rng) -> R {
  let k1 = R::Kind(rng.pick(&h.kinds).clone());
  let k2 = R::Kind(rng.pick(&h.kinds).clone());
  let target = match other {
    Some(o) if rng.chance(1, 2) => o.clone(),
    _ => name.to_string(),
  };
  let alt = |rng: &mut Rng| {
    if rng.chance(3, 4) {
      R::Any(vec![k2.clone(), R::Matches(target.clone())])
    } else {
      R::All(vec![R::Matches(target.clone()), R::Not(Box::new(k2.clone()))])
    }
  };
  // the recursion goes through `stopBy: neighbor` only: with `end` the evaluation (implementation and
  // reference alike, neither memoises) is exponential in the nesting depth
  let stop = Stop::Neighbor;
  match rng.below(5) {
    0 | 1 => R::Obj(vec![k1, R::Has(Box::new(alt(rng)), stop, None)]),
    2 => R::Obj(vec![k1, R::Inside(Box::new(alt(rng)), stop, None)]),
    3 => R::Any(vec![k1.clone(), R::Obj(vec![k2.clone(), R::Has(Box::new(R::Matches(target.clone())), Stop::Neighbor, None)])]),
    _ => R::Obj(vec![k1, if rng.chance(1, 2) { R::Follows(Box::new(alt(rng)), Stop::Neighbor) } else { R::Precedes(Box::new(alt(rng)), Stop::Neighbor) }]),
  }
}

/// a random rule tree; every operator of the rule reference can appear
pub fn gen_rule(h: &Harvest, cfg: &GenCfg, depth: usize, rng: &mut Rng) -> R {
  if depth >= cfg.max_depth {
    return gen_atom(h, cfg, rng);
  }
  match rng.below(14) {
    0 | 1 => gen_atom(h, cfg, rng),
    2 => R::All((0..2 + rng.below(2)).map(|_| gen_rule(h, cfg, depth + 1, rng)).collect()),
    3 => R::Any((0..2 + rng.below(2)).map(|_| gen_rule(h, cfg, depth + 1, rng)).collect()),
    4 => R::Not(Box::new(gen_rule(h, cfg, depth + 1, rng))),
    5 | 6 => {
      let field = if cfg.allow_field && !h.fields.is_empty() && rng.chance(1, 3) { Some(rng.pick(&h.fields).clone()) } else { None };
      let stop = if field.is_some() && rng.chance(1, 3) { Stop::Neighbor } else { gen_stop(h, cfg, depth, rng) };
      R::Inside(Box::new(gen_rule(h, cfg, depth + 1, rng)), stop, field)
    }
    7 | 8 => {
      let field = if cfg.allow_field && !h.fields.is_empty() && rng.chance(1, 3) { Some(rng.pick(&h.fields).clone()) } else { None };
      let stop = if field.is_some() && rng.chance(1, 3) { Stop::Neighbor } else { gen_stop(h, cfg, depth, rng) };
      R::Has(Box::new(gen_rule(h, cfg, depth + 1, rng)), stop, field)
    }
    9 => R::Precedes(Box::new(gen_rule(h, cfg, depth + 1, rng)), gen_stop(h, cfg, depth, rng)),
    10 => R::Follows(Box::new(gen_rule(h, cfg, depth + 1, rng)), gen_stop(h, cfg, depth, rng)),
    11 => {
      // nthChild with a composite ofRule
      let of = gen_rule(h, cfg, depth + 1, rng);
      R::Nth { a: *rng.pick(&[0, 0, 2, -1]), b: rng.range(1, 3), reverse: rng.chance(1, 2), of: Some(Box::new(of)), simple: false }
    }
    _ => {
      // an object with several distinct keys
      let mut parts: Vec<R> = vec![];
      let n = 2 + rng.below(2);
      let mut guard = 0;
      while parts.len() < n && guard < 20 {
        guard += 1;
        let c = if rng.chance(1, 2) { gen_atom(h, cfg, rng) } else { gen_rule(h, cfg, depth + 1, rng) };
        if matches!(c, R::Obj(_)) {
          continue;
        }
        if parts.iter().any(|p| p.key() == c.key()) {
          continue;
        }
        parts.push(c);
      }
      if parts.len() == 1 {
        parts.pop().unwrap()
      } else {
        R::Obj(parts)
      }
    }
  }
}
