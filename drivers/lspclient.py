"""Minimal LSP JSON-RPC client (stdlib only) for the real `ast-grep lsp` server."""
import os, json, subprocess, threading, time, queue
from common import SG


class Lsp:
    def __init__(self, cwd, env=None, folders_policy='immediate', binary=None):
        e = dict(os.environ); e['NO_COLOR'] = '1'
        e.pop('AST_GREP_VERIF_LOG', None)
        if env:
            e.update(env)
        self.cwd = cwd
        self.p = subprocess.Popen([binary or SG, 'lsp'], cwd=cwd, stdin=subprocess.PIPE, stdout=subprocess.PIPE, stderr=subprocess.PIPE, env=e)
        self.lock = threading.Lock()
        self.next_id = 1
        self.responses = {}
        self.history = []          # (t, direction, message)
        self.last_traffic = time.monotonic()
        self.pending_folder_requests = []   # server requests not yet answered
        self.folders_policy = folders_policy   # 'immediate' | 'manual'
        self.cv = threading.Condition()
        self.alive = True
        self.t = threading.Thread(target=self._reader, daemon=True)
        self.t.start()

    # --- wire
    def _send(self, msg):
        body = json.dumps(msg).encode('utf-8')
        with self.lock:
            self.history.append((time.monotonic(), 'out', msg))
            try:
                self.p.stdin.write(b'Content-Length: %d\r\n\r\n' % len(body) + body)
                self.p.stdin.flush()
            except (BrokenPipeError, ValueError):
                self.alive = False
        self.last_traffic = time.monotonic()

    def _reader(self):
        f = self.p.stdout
        while True:
            length = None
            while True:
                line = f.readline()
                if not line:
                    self.alive = False
                    with self.cv:
                        self.cv.notify_all()
                    return
                line = line.strip()
                if not line:
                    break
                if line.lower().startswith(b'content-length:'):
                    length = int(line.split(b':')[1])
            if length is None:
                continue
            body = f.read(length)
            try:
                msg = json.loads(body)
            except Exception:
                continue
            now = time.monotonic()
            self.last_traffic = now
            with self.cv:
                self.history.append((now, 'in', msg))
                if 'id' in msg and 'method' in msg:
                    self._server_request(msg)
                elif 'id' in msg:
                    self.responses[msg['id']] = msg
                self.cv.notify_all()

    def _server_request(self, msg):
        m = msg['method']
        if m == 'workspace/workspaceFolders':
            if self.folders_policy == 'immediate':
                self._answer_folders(msg['id'])
            else:
                self.pending_folder_requests.append(msg['id'])
        elif m == 'workspace/configuration':
            threading.Thread(target=self._send, args=({'jsonrpc': '2.0', 'id': msg['id'], 'result': []},), daemon=True).start()
        else:
            threading.Thread(target=self._send, args=({'jsonrpc': '2.0', 'id': msg['id'], 'result': None},), daemon=True).start()

    def _answer_folders(self, rid, sync=False):
        res = [{'uri': 'file://' + self.cwd, 'name': 'p'}]
        self.last_traffic = time.monotonic()
        if sync:
            self._send({'jsonrpc': '2.0', 'id': rid, 'result': res})
        else:
            threading.Thread(target=self._send, args=({'jsonrpc': '2.0', 'id': rid, 'result': res},), daemon=True).start()

    def answer_pending_folders(self):
        with self.cv:
            ids, self.pending_folder_requests = self.pending_folder_requests, []
        for i in ids:
            self._answer_folders(i, sync=True)
        return len(ids)

    # --- api
    def notify(self, method, params):
        self._send({'jsonrpc': '2.0', 'method': method, 'params': params})

    def request(self, method, params, timeout=20):
        with self.lock:
            rid = self.next_id; self.next_id += 1
        self._send({'jsonrpc': '2.0', 'id': rid, 'method': method, 'params': params})
        end = time.monotonic() + timeout
        with self.cv:
            while rid not in self.responses and self.alive:
                left = end - time.monotonic()
                if left <= 0:
                    return None
                self.cv.wait(left)
            return self.responses.get(rid)

    def initialize(self):
        caps = {'workspace': {'workspaceFolders': True}, 'textDocument': {'codeAction': {'codeActionLiteralSupport': {'codeActionKind': {'valueSet': ['quickfix', 'source.fixAll']}}}, 'publishDiagnostics': {'versionSupport': True}}}
        r = self.request('initialize', {'processId': os.getpid(), 'rootUri': 'file://' + self.cwd, 'capabilities': caps, 'workspaceFolders': [{'uri': 'file://' + self.cwd, 'name': 'p'}]})
        self.notify('initialized', {})
        return r

    def wait_quiet(self, settle=0.6, timeout=20):
        """wait until no message was exchanged for `settle` seconds; False = watchdog (inconclusive)"""
        end = time.monotonic() + timeout
        while time.monotonic() < end:
            if not self.alive:
                return True
            if time.monotonic() - self.last_traffic >= settle and not self.pending_folder_requests:
                return True
            time.sleep(0.05)
        return False

    def diagnostics(self):
        with self.cv:
            return [(t, m['params']['uri'], m['params'].get('version'), m['params']['diagnostics']) for t, d, m in self.history if d == 'in' and m.get('method') == 'textDocument/publishDiagnostics']

    def close(self):
        try:
            self.request('shutdown', None, timeout=1)
            self.notify('exit', None)
        except Exception:
            pass
        try:
            self.p.stdin.close()
        except Exception:
            pass
        try:
            self.p.wait(timeout=0.5)
        except subprocess.TimeoutExpired:
            self.p.kill()
            try:
                self.p.wait(timeout=2)
            except subprocess.TimeoutExpired:
                pass
        try:
            return self.p.stderr.read().decode('utf-8', 'replace')
        except Exception:
            return ''
