"""Per-property configuration of the orchestrator."""
PROPS = {
    'C19': dict(
        engines=[('vmon', 'c19')],
        technique='runtime monitoring: recursive-baseline oracle over the public Node API on corpus + mutated trees',
        level_text=('Every node of ~0.6 M (quick) / several M (thorough) nodes of real and damaged trees in 23 languages is checked against an '
                    'independent recursive baseline; held on the executions observed, nothing is proved.'),
        level_note='Trusted: children() as baseline, tree-sitter parse itself, the harness line/column routine. Two tree-sitter cursor defects are known findings.',
        rule=('every corpus file of 23 languages plus token-level mutants (deleted/duplicated/swapped tokens, multi-byte '
              'insertions, CRLF, truncation) and degenerate sources; every node is checked against a recursive baseline built '
              'from children() only (parent, child(i), nesting, ancestors, next/prev, next_all/prev_all incl. the root, '
              'Pre/Post/Level/Visitor traversals from the root and from inner nodes, line/character columns). '
              'Non-trivial = distinct (file, node) with >= 2 children in a file containing an ERROR node or a multi-byte character.'),
        floor={'quick': 100000, 'thorough': 1000000},
        assumptions=['children() enumerates the children of a node (it is the baseline of every clause)',
                     'sibling-sequence clause skipped under parents that have a zero-width child (statement)'],
    ),
    'C10': dict(
        engines=[('vmon', 'c10')],
        technique='runtime monitoring: differential oracle (incrementally edited document vs fresh parse) over random edit histories',
        rule=('per corpus file (23 languages) random histories of 1-14 (quick) / 1-40 (thorough) operations through AstGrep::edit and '
              'AstGrep::replace: leaf replaced by shorter/longer/multi-byte token, statement deleted/duplicated, insertion at offset 0 and at EOF, '
              'blank lines added/removed, replacement from a real pattern match. After every step source() must equal the harness splice and, '
              'when a fresh parse of that text is error-free, the DFS dump (kind id, named, byte range, line/char column, child count) and the '
              'results of probe searches must be identical. evaluations = steps compared with a fresh parse. '
              'Non-trivial = distinct histories with >= 2 steps in which a length-changing edit precedes a later compared step.'),
        floor={'quick': 300, 'thorough': 5000},
        level_text=('Thousands of edit steps on real sources are compared node by node with a fresh parse; held on the histories executed. '
                    'ASan/valgrind shards of the same workload are described in DESIGN.md §4.'),
        level_note='Trusted: tree-sitter produces the same tree for a correct InputEdit as for a fresh parse when the text is error-free (measured: silent on >10k steps after the fix of the duplicate tree.edit).',
        assumptions=['only steps whose resulting text parses without ERROR/MISSING nodes are compared (statement)'],
    ),
}

NOT_APPLICABLE = {}
