"""Per-property configuration of the orchestrator."""
PROPS = {
    'C19': dict(
        engines=[('vmon', 'c19'), ('asan', 'c19')],
        technique='runtime monitoring: recursive-baseline oracle over the public Node API on corpus + mutated trees; thorough tier repeats the workload per language in an AddressSanitizer build',
        level_text=('Every node of ~0.6 M (quick) / several M (thorough) nodes of real and damaged trees in 23 languages is checked against an '
                    'independent recursive baseline; held on the executions observed, nothing is proved.'),
        level_note='Trusted: children() as baseline, tree-sitter parse itself, the harness line/column routine. The tree-sitter cursor defects found here (prev_all) were repaired in /repo (876cff2); under parents with more than 200 children the sibling chains are walked for the ends and a regular sample only (work limit).',
        rule=('every corpus file of 23 languages plus token-level mutants (deleted/duplicated/swapped tokens, multi-byte '
              'insertions, CRLF, truncation) and degenerate sources; every node is checked against a recursive baseline built '
              'from children() only (parent, child(i), nesting, ancestors, next/prev, next_all/prev_all incl. the root, '
              'Pre/Post/Level/Visitor traversals from the root and from inner nodes, line/character columns). '
              'Non-trivial = distinct (file, node) with >= 2 children in a file containing an ERROR node or a multi-byte character.'
              ' Additions: source mutations `long line` (a 4-5 KiB single line with a multi-byte prefix) and `lone CR`.'
              ' Multi-byte insertions include plane-15/16 code points (lead byte 0xF3/0xF4).'),
        floor={'quick': 100000, 'thorough': 1000000},
        assumptions=['children() enumerates the children of a node (it is the baseline of every clause)',
                     'sibling-sequence clause skipped under parents that have a zero-width child (statement)'],
    ),
    'C10': dict(
        engines=[('vmon', 'c10'), ('asan', 'c10')],
        technique='runtime monitoring: differential oracle (incrementally edited document vs fresh parse) over random edit histories; thorough tier repeats the workload per language in an AddressSanitizer build (unsafe as_mut_vec splice, tree-sitter edit/reparse)',
        rule=('per corpus file (23 languages) random histories of 1-14 (quick) / 1-40 (thorough) operations through AstGrep::edit and '
              'AstGrep::replace: leaf replaced by shorter/longer/multi-byte token, statement deleted/duplicated, insertion at offset 0 and at EOF, '
              'blank lines added/removed, replacement from a real pattern match. After every step source() must equal the harness splice and, '
              'when a fresh parse of that text is error-free, the DFS dump (kind id, named, byte range, line/char column, child count) and the '
              'results of probe searches must be identical. evaluations = steps compared with a fresh parse. '
              'Non-trivial = distinct histories with >= 2 steps in which a length-changing edit precedes a later compared step.'
              ' Additions: whitespace-only edits (indentation grows or shrinks, a line break becomes blanks and vice versa).'),
        floor={'quick': 300, 'thorough': 5000},
        level_text=('Thousands of edit steps on real sources are compared node by node with a fresh parse; held on the histories executed. '
                    'The thorough tier also runs the workload inside an AddressSanitizer build, one process per language (DESIGN.md §9.7).'),
        level_note='Not trusted blindly: tree-sitter itself does not always produce the fresh-parse tree for a correct InputEdit (external scanners: Bash, Python). Every history is therefore replayed through raw tree-sitter with an independently computed InputEdit; a divergence that the raw replay reproduces exactly is the known finding C10/tree-sitter-incremental-reparse, any other divergence is a fresh violation.',
        assumptions=['only steps whose resulting text parses without ERROR/MISSING nodes are compared (statement)'],
    ),
    'C20': dict(
        engines=[('vmon', 'c20')],
        exhaustive=True,
        technique='runtime monitoring by bounded-exhaustive execution: every string of four small notations is run through the real code and compared with an executable specification',
        rule=('five bounded spaces, each enumerated completely and executed: (1) all strings over {$,A,B,a,z,_,1} up to length 5 (quick) / 7 (thorough) x 23 languages through '
              'pre_process_pattern+extract_meta_var vs the specification classifier; (2) 7 canonical spellings x 3 names in a per-language carrier pattern: exactly one hole of the '
              'expected variant, and its behaviour on sources with 0/1/2 arguments; (3) every string over {n,+,-,0-3,space} up to length 6/7 accepted by a strict CSS An+B grammar, as '
              'nthChild (with and without reverse) on a 12-element sibling list vs {i: exists n>=0, A*n+B=i}; (4) substring on all texts up to 5/6 chars over {a,e-acute,crab} x start,end in '
              '{absent,-7..7} through a real rule transform vs Python slicing; (5) all templates over {$,A,a,_,space} up to length 6/7 through TemplateFix (used_vars, expansion with A bound '
              'as single and as multi). Non-trivial = distinct strings containing a sigil, distinct accepted formulas, distinct substring cases with a negative or out-of-range index.'),
        floor={'quick': 300000, 'thorough': 3000000},
        level_text='Each bounded space is enumerated completely and executed against the real code (exhaustive within the stated alphabet/length bounds); nothing beyond the bounds is claimed.',
        level_note='Trusted: the executable specifications in harness/src/mon/c20.rs (classifier, strict An+B grammar, Python slice, template scanner). Templates with sigil runs > 3, digit-first or _-first names carry no verdict (statement is silent).',
        assumptions=['template strings whose meaning the statement does not fix (sigil runs longer than 3, digit-first / underscore-first names) carry no verdict',
                     'An+B strings outside the strict CSS grammar carry no verdict'],
    ),
    'C02': dict(
        engines=[('vmon', 'c02'), ('asan', 'c02')],
        technique='runtime monitoring: generated patterns cut from real code, premise checked structurally, match outcome and bindings asserted at all five strictness levels',
        rule=('pattern cutter over every corpus file (23 languages): an error-free named node is turned into a pattern by replacing 0-4 non-overlapping named descendants with '
              '$V0.. or a trailing run of named children with $$$V. The premise "same tree shape" is CHECKED by structural alignment of the public PatternNode tree with the node '
              '(same kinds, same child counts, equal terminal text, holes exactly over the abstracted byte ranges); cases failing it are counted as skipped_premise and never judged. '
              'evaluations = cuts generated; each premise-holding cut is matched at cst/smart/ast/relaxed/signature and every binding range compared. '
              'Non-trivial = distinct (file, node, pattern) whose premise held and which have >= 1 hole or an ellipsis or a node with >= 3 children.'
              ' Additions: a third of the premise-holding cuts is also used as the CONTEXT of a pattern with a selector (the first node of the selector kind must be the image of the chosen sub-node): the selected sub-pattern must match that sub-node at all five levels and bind the holes inside it.'),
        floor={'quick': 20000, 'thorough': 100000},
        level_text='Tens of thousands (quick) to ~0.6 M (thorough) cut patterns per run, each checked at five strictness levels; held on the cuts executed.',
        level_note='Trusted: the structural premise check (refsem/align.rs::shape) and children() enumeration. Holes only on named descendants; nodes containing ERROR/MISSING are excluded (statement).',
    ),
    'C03': dict(
        engines=[('vmon', 'c03')],
        technique='runtime monitoring: implementation matches checked against an independent, most-permissive alignment relation (dynamic program) on near-miss candidates',
        rule=('patterns cut from every corpus file (holes, ellipses, self patterns) are tried at all five strictness levels on every node of the same kind in the whole language corpus '
              'and in mutated copies (capped per pattern) plus random nodes; whenever Pattern::match_node reports a match the independent relation legal(pattern, node, strictness) must hold, '
              'and get_match_len must be 0 < len <= |node| ending on a descendant boundary. evaluations = (pattern, node, level) triples. '
              'Non-trivial = distinct (pattern, candidate) pairs where the implementation matched a node whose text differs from the pattern, or matched at some levels only (near miss).'),
        floor={'quick': 500000, 'thorough': 10000000},
        level_text='Millions of (pattern, node, strictness) triples with frequent near misses; implementation subset-of relation checked on each reported match.',
        level_note=('Trusted: refsem/align.rs::legal, written from the property statement as the most permissive reading (pattern ERROR = wildcard kind, childless pattern node constrains only the kind, '
                    'repeated-variable consistency ignored here). It cannot see matches that are legal but undesirable.'),
    ),
    'C05': dict(
        engines=[('vmon', 'c05')],
        technique='runtime monitoring: reference-model oracle (independent recursive evaluator of the rule reference) vs Rule matching on every node, with defect-emulation attribution and rule shrinking',
        rule=('random rule trees (depth <= 3 quick / 5 thorough) over pattern, kind, regex, range, nthChild (numeric, An+B, reverse, ofRule), all, any, not, inside/has/precedes/follows with '
              'stopBy neighbor|end|rule and field (neighbor only), matches with 0-2 acyclic utilities; leaves are harvested from the scanned file (kinds that occur, variable-disjoint cut patterns, '
              'identifier regexes, real and near-miss ranges). Each rule is loaded from its YAML through SerializableRuleCore and evaluated on every node (root included, <= 900 nodes per source) of '
              'corpus excerpts and error-ridden variants without zero-width nodes; RuleCore::match_node(n).is_some() must equal the reference. evaluations = (rule, node) pairs. '
              'Non-trivial = distinct (source, rule) pairs where the rule is true on >= 1 node and false on >= 1 node.'
              ' Additions: `field` is generated with every stopBy; recursive utilities (self / forward reference below a relation with stopBy neighbor); utilities used more than once lose their captures (the statement quantifies over variable-disjoint sub-patterns); rule / tree combinations above an estimated 1e10 atom evaluations are not started.'
              ' Every other document without untracked references is loaded together with global utilities that carry the ids of its local utilities (regex `.`: they would let in whatever the local utility rejects).'),
        floor={'quick': 500000, 'thorough': 10000000},
        level_text='Millions of (rule, node) evaluations per run against an independent evaluator over parent()/children(); disagreements are shrunk and attributed; held on the rules and trees executed.',
        level_note=('Trusted: refsem/rule_bool.rs (written from the rule reference and the schema descriptions), the regex crate, Pattern atoms (judged by C02/C03), tree-sitter child_by_field_name. '
                    'field with every stopBy (the search starts at the child labelled so) and only when <= 1 child carries the field; rule / tree combinations whose estimated cost exceeds 1e10 atom evaluations are not started (a single evaluation cannot be interrupted); a per-rule work limit (400 ms) stops cubic rule/tree combinations (counted, no verdict).'),
        assumptions=['sources containing MISSING or zero-width nodes are skipped (statement)', 'evaluations with an ambiguous field carry no verdict (statement)'],
    ),
    'C04': dict(
        engines=[('vmon', 'c04')],
        technique='runtime monitoring: functional reference evaluator with environments (failure cannot leak) vs implementation outcome and environment, on decoy-laden permuted sources',
        rule=('rule documents whose sub-patterns SHARE variable names ($A,$B,$F,$$$R) across all/any/not/has/inside/follows/precedes/matches (local utilities, one optional global utility with '
              'constraints) and rule-level constraints; 3/4 of the bodies come from targeted shapes (relation over not/all/any/nested relation/utility with decoys), the rest from the random rule '
              'generator. (a) synthetic JavaScript sibling lists f(1); g(2); { h(1); } last(); ... evaluated under permutations of the statements, (b) excerpts of all 23 corpus languages with '
              'patterns cut from them and variables renamed into the shared pool. For every node: outcome and the full environment (single and multi captures by byte range, label `secondary` ignored) '
              'must equal the reference. evaluations = (document, source, node) triples. Non-trivial = distinct documents in which some name occurs in >= 2 patterns and which match >= 1 node and reject >= 1 node.'
              ' Additions: (c) the repeated-hole and repeated-ellipsis oracles -- two sub-trees (two bracketed lists) of one kind inside a host node are abstracted by the same variable, one of them is then replaced by the other\'s text, by a truncation at a child boundary, by an emptied / shortened list or by another node of the file, the host is re-parsed, and a match is a violation whenever the two occurrences spell different token sequences (premises: the pattern parses without ERROR and contains the variable twice; identical text is identical code). Constrained global utilities are referenced on the node, behind has/inside/follows/precedes and inside `any`.'
              ' Fields: the environment reference implements `field` for inside / has, and one document in five (corpus part) is a field-restricted search with capturing sub-patterns.'),
        floor={'quick': 1000000, 'thorough': 20000000},
        level_text='Millions of (rule, node) evaluations with shared variable names; environments compared exactly; held on the documents and permutations executed.',
        level_note=('Trusted: refsem/rule_env.rs (conjunction order atomic->composite->relational as documented, `any` first winning branch, relations nearest-first with every candidate starting from the '
                    'incoming environment), Pattern atoms delegated to the real Pattern on a fresh env copy -- which is why the clause "all occurrences of one variable are identical code" is judged separately by the repeated-hole and repeated-ellipsis oracles (one variable for two sub-trees / two bracketed lists, one of them replaced or truncated; verdict from token sequences only). Constrained global utilities are referenced on the node, behind relations and inside alternatives. nthChild.ofRule is restricted to kind/regex here (its capturing form is C05\'s known finding).'),
    ),
    'C01': dict(
        engines=[('vmon', 'c01'), ('py', 'c01_cli')],
        cli=True,
        technique='runtime monitoring: differential oracle (accelerated search vs per-node matching over a DFS) + invariant hooks at every prune site (the skipped work is evaluated and must not match) + CLI vs library comparison',
        rule=('library: per corpus excerpt and error-ridden variant (23 languages): cut patterns at all five strictness levels, contextual patterns with selector, kind and regex matchers, '
              'generated rule documents (utilities, composite and relational operators, with and without fix) alone and in sets of 1-8 scanned together; find_all must equal per-node '
              'match_node over a DFS in document order, the overlap-free visitor must equal the matches without a matching proper ancestor, CombinedScan (separate_fix false/true) must equal each '
              'rule alone; hook H1 re-evaluates the skipped work at FindAllNodes, All/Any kind caches, RuleCore kinds, CombinedScan kind dispatch (would_match=true is a violation). '
              'CLI: for 8 (quick) / 23 (thorough) languages a directory of corpus files is searched with `ast-grep run -p .. -l .. --strictness .. [--selector ..] --json=stream` and '
              '`ast-grep scan -r rule.yml --json=stream`; the multiset of (file, byte range) must equal the library answer per file and the H1 event log of the binary (literal prefilter) must be empty. '
              'evaluations = matcher/source cases + CLI invocations. Non-trivial = distinct cases whose matcher has a kind set (acceleration active) and matches >= 1 node; rule sets with >= 2 rules; CLI queries with >= 1 expected match.'
              ' Additions: the CLI part covers all 23 languages in both tiers and adds, for every cut pattern, variants with one lower-case word upper-cased (case-insensitive keywords); utilities include recursive / forward-referencing ones; every other rule document is loaded together with global utilities that carry the ids of its local utilities, and violations that disappear without them are attributed to the shadowing.'
              ' Selector queries of the CLI part run with and without --strictness.'),
        floor={'quick': 10000, 'thorough': 60000},
        level_text='Tens of thousands of searches and ~50 M observed prune decisions per quick run, each prune decision individually checked by evaluating the skipped work; held on the executions observed.',
        level_note='Trusted: Pre-order dfs() (checked by C19), match_node on a single node (judged by C02-C05). The prune hooks only ADD evaluation; the CLI comparison uses the hooked release binary.',
    ),
    'C06': dict(
        engines=[('vmon', 'c06'), ('asan', 'c06')],
        technique='runtime monitoring: invariant assertions on every proposed edit + splice oracle for the rewritten text and for rewrite transformations (one or two rewriters, joinBy); thorough tier repeats the workload in an AddressSanitizer build',
        rule=('per corpus excerpt (23 languages) and per multi-byte / CRLF / syntax-error variant: cut patterns with (a) string fixes (literal, Unicode, multi-line, reordered variables), '
              '(b) object fixes with expandStart/expandEnd (regex / kind rules, stopBy neighbor|end|rule), (c) rewrite transforms with a rewriter (kind or kind+pattern, literal or wrapping fix, '
              'optional joinBy, optional expansions). For every match of the overlap-free visitor the edit must lie inside the file on character boundaries with valid UTF-8, start at the match '
              '(or cover it when expanded, without leaving the parent), replace_all must be ordered/disjoint and as numerous as the visitor\'s matches, AstGrep::replace must yield exactly the '
              'original with the first range substituted, and for single-line captures the transformed value must equal the harness splice of the first-matching, non-overlapping rewriter edits. '
              'evaluations = generated (pattern, source) cases. Non-trivial = distinct (source, rule) with >= 2 edits, or multi-byte text within 16 bytes of an edit, or an expansion that moved a boundary, or >= 1 rewriter sub-edit.'
              ' Additions: rewrite transformations use one or two rewriters whose kinds are taken from the captured sub-tree (nested rewriter matches are frequent), joinBy in half of the cases.'
              ' Expansion rules that mention a variable bound by the match (`expandEnd: {pattern: $V}`): the sibling reached must be the same text as the binding.'),
        floor={'quick': 2000, 'thorough': 50000},
        level_text='~100 k edits per quick run are individually asserted and the rewritten text compared with an independent splice; held on the rewrites executed.',
        level_note='Trusted: the harness splice, the overlap-free visitor as enumeration of matches (judged by C01). Multi-line rewriter captures and rewriters with expansions are checked for invariants only (valid UTF-8, no panic).',
    ),
    'C07': dict(
        engines=[('vmon', 'c07')],
        technique='runtime monitoring: reference-model oracle (template scanner + documented indentation model) vs generate_replacement, byte for byte',
        rule=('per corpus excerpt (23 languages), also re-indented by 3 and 8 spaces: a node is cut into a pattern with 1-3 holes or a trailing $$$V, matched, and random templates over its variables '
              '(literal text incl. Unicode, `$x`, lone `$`, `a$`, `$VAR`, `$$VAR`, `$$$VAR`, variables glued to lower-case identifiers, $UNBOUND, newlines followed by 0/2/4/7 spaces) are expanded by '
              'TemplateFix and by the &str replacer; the reference expands literal text verbatim, bound variables to the exact source slice, unbound ones to nothing, moves continuation lines of a '
              'capture from indentation in_i to in_i - indent(capture line) + indent(template slot line) and shifts every later line by indent(match line). Identity: the pattern text (de-indented by '
              'the match line) used as fix must reproduce the node text when C02\'s shape premise holds. Transformed variables (substring) through a real rule. '
              'No verdict: captures with tabs/CR, blank or under-indented continuation lines, match more than 480 bytes into its line, templates outside the scanner\'s verdict set. '
              'evaluations = (match, template) pairs. Non-trivial = distinct pairs with a multi-line capture or a multi-line template.'
              ' Additions: 1 500 (quick) / 60 000 (thorough) synthetic cases per shard on string fragments over {a,b,z,e-acute,ya,A,B,Z,E-acute,YA,digits,-./ _}: `convert` for all seven cases and every separatedBy subset (letters and digits are conserved for every input; exact reference for inputs made of letters and selected delimiters), `substring` (Python slice) and `replace` (regex with capture groups) on non-ASCII text.'
              ' The same number of synthetic JavaScript calls per shard (a) put a `replace` transformation on a multi-line `$$$ARGS` whose members sit on differently indented lines (reference: the capture rule with the first member\'s line) and (b) place `wrap(first,\\n second,\\n third)` 20-1 450 bytes into an indented line (long string literal with runs of blanks before it) and rewrite it with single-line templates: the continuation lines must come out unchanged wherever the site is, because capture and match start on the same line.'),
        floor={'quick': 10000, 'thorough': 300000},
        level_text='Tens of thousands of template expansions per quick run compared byte for byte with an independent model; held on the expansions executed.',
        level_note='Trusted: refsem/template.rs (scanner shared with C20, indentation model transcribed from the module documentation of replacer/indent.rs and the property statement), bindings taken from the real match (judged by C02).',
        assumptions=['indentation clause restricted as in the statement (spaces only, no blank or under-indented continuation lines)'],
    ),
    'C12': dict(
        engines=[('vmon', 'c12'), ('asan', 'c12')],
        technique='runtime monitoring: generator-known consistency oracle (valid documents with exactly one perturbation) + reference template expansion for every accepted document; thorough tier repeats the workload in an AddressSanitizer build (registration mutates shared maps through a raw pointer)',
        rule=('valid rule documents are assembled from parts for 7 languages (pattern with two variables, optional utilities used through has/all/not, constraints, a chain of 0-3 transformations, a '
              'rewriter + rewrite transform, string or object fix over all defined variables); then one of 16 perturbation classes is applied: variable in fix renamed (string / object form), transform '
              'source undefined, constraints key undefined, referenced utility removed, rewriter removed, transform self-dependent / cyclic, utility requiring itself through matches / all / any / not / '
              'nthChild.ofRule / mutually, every kind-giving atom removed (must be rejected), self-reference through has (either outcome). Unperturbed twins must load; every accepted document is run on '
              'a matching source and generate_replacement must equal the reference expansion over captured and transformed values. Cyclic documents are never executed. '
              'evaluations = documents. Non-trivial = distinct perturbed documents (classes are counted separately in the evidence).'
              ' Additions: 40 000 (quick) / 1 000 000 (thorough) documents; the reference to a utility sits in one of twelve positions (all relations, stopBy, nthChild.ofRule, any, constraints ...); further perturbation classes: exactly one reference renamed to an undefined id, undefined utility inside a rewriter, transformation cycle through `rewrite`, kind-less local utility shadowing a global utility that has kinds.'
              ' Further classes: a rewriter\'s own utils with a dangling reference; transformation names run against the dependency order in half of the documents and every substring / replace / convert value of the chain is recomputed from the captured text.'),
        floor={'quick': 2000, 'thorough': 100000},
        level_text='Every perturbation class is exercised hundreds (quick) to thousands (thorough) of times with randomised surrounding parts; acceptance and the converse replacement clause are asserted per document.',
        level_note='Trusted: the generator\'s knowledge of which perturbation is inconsistent (by construction), refsem/template.rs, transformed values as computed by the implementation (their arithmetic is C20\'s).',
    ),
    'C11': dict(
        engines=[('py', 'c11')],
        cli=True,
        technique='runtime monitoring of isolated child processes: panic capture (catch_unwind + hook), exit status / signal / CPU-time limit, deadlock detection by /proc sampling, with bisection of dying batches',
        rule=('four generators, every case addressed by (seed, index): (1) schema-directed documents = valid skeleton for one of 8 languages (utilities, constraints, transform chains, rewriters, '
              'string/object fix) with 0-3 typed wild values (invalid / pathological regexes, unknown kinds, extreme numbers, malformed An+B, bad variable names, junk types); (2) mutations of seed rules '
              '(delete / rename / retype a key, splice sub-trees); (3) reference cycles through matches under all/any/not/has/inside/precedes/follows/stopBy/nthChild.ofRule/constraints/expandStart/expandEnd, '
              'self-rewriting rewriters, inter-dependent transforms; (4) raw text (truncated documents, YAML anchors/aliases, random bytes). Each case is loaded as rule file and as utility file in a child '
              'process (vmon c11) and, when accepted, scanned over 3-5 texts of its language (CombinedScan both modes, messages, edits). A dying child is narrowed to one input through its progress marker '
              'and confirmed alone under a 10 s CPU limit. CLI part: 220 (quick) / 1500 (thorough) of those rule files through `ast-grep scan -r|--inline-rules [-j 4]` and 90 / 600 generated projects '
              '(sgconfig variants, rule/util/test/snapshot files with wild values) through scan / test [-U]: no panic message, no signal, no CPU overrun, no deadlock (all threads sleeping with unchanged CPU time on three samples). '
              'evaluations = documents + CLI invocations. Non-trivial = accepted documents that produced >= 1 match, documents rejected by a layer deeper than YAML syntax, CLI runs.'
              ' Additions: generated rules carry files / ignores / severity / labels / note / url / metadata; accepted rules are also scanned over hostile texts (mixed-case non-ASCII identifiers, CRLF, tabs, astral characters, deep nesting); project configs perturb exactly one sgconfig key with typed wild values (empty lists, invalid globs); all printers (coloured, short, GitHub, JSON, -U) run; the full product severity x files/ignores x fix x printer for one matching rule; a process whose threads only poll each other counts as hung, and a panic message from ast-grep\'s code is reported even when the watchdog cannot classify the process.'
              ' languageInjections entries overlap or repeat (tagged templates in the hostile sources); rewriter fixes are objects with expandStart / expandEnd, with and without joinBy.'),
        floor={'quick': 20000, 'thorough': 1000000},
        level_text='Tens of thousands (quick) to millions (thorough) of hostile configurations executed in isolated children; crash-freedom is sampled, not exhausted.',
        level_note=('Trusted: the process-level observations (exit status, signals, /proc task states, stderr). The harness build has overflow checks and debug assertions ON, the CLI is the plain release build; '
                    'deadlock verdicts use logical progress (CPU time of all threads), a 120 s wall watchdog yields inconclusive.'),
    ),
    'C14': dict(
        engines=[('vmon', 'c14'), ('py', 'c14_cli')],
        cli=True,
        technique='runtime monitoring: independent line-model oracle vs CombinedScan (in process) and vs `ast-grep scan --json` in generated projects',
        rule=('for 13 languages (comment syntaxes //, #, --, /* */, <!-- -->) files of 3-11 lines are generated: lines of 1-3 single-line statements each triggering one of four rules r1..r4, '
              'own-line directives, trailing directives, both, stacked and adjacent directives, at file start/end; id lists: none, one, several, unknown ids. The line model says: finding (r, L) is '
              'suppressed iff an own-line directive on L-1 or a trailing directive on L lists r or nothing; a directive is unused iff it suppressed nothing. Compared with CombinedScan::scan (matches and '
              'unused-suppression entries, per-line multiplicities) and, for 130 (quick) / 1200 (thorough) of the same files, with the records of `ast-grep scan --json=stream` in a project with rule files. '
              'evaluations = files. Non-trivial = distinct files with >= 2 directives, >= 2 findings and at least one id list.'
              ' Additions: two twin rules (r1b, a3) report the same nodes as r1 / r3 under ids that are prefixes of each other and sort on either side; two- and three-line statements with a comment inside (enabled per language after checking that the rules match the form); empty lines; id separators `, ` `,` ` , ` ` ,`; 30 000 (quick) / 600 000 (thorough) files.'
              ' C files also contain preprocessor lines (a previous sibling whose node includes its line break).'),
        floor={'quick': 3000, 'thorough': 100000},
        level_text='Thousands of generated files per quick run, every finding and every directive judged by the line model; held on the placements executed.',
        level_note='Trusted: the line model (harness/src/mon/c14.rs::model, written from the statement), the six rules of each language (four statements, two of them reported by a twin rule as well) firing exactly once per statement, two- and three-line spellings enabled per language after checking that the rules match them (asserted: the rules must load; unsuppressed findings are compared with multiplicity).',
    ),
    'C16': dict(
        engines=[('py', 'c16')],
        cli=True,
        technique='runtime monitoring at the process boundary: oracle computed from the file bytes only, applied to every JSON record and every line of the plain-text report',
        rule=('generated JavaScript projects (0, 1, 2, 5 or 9 matching files, nested directory, a non-source file) whose files contain multi-byte text before and inside matches, CRLF line ends, a '
              '100 000-character line, matches at offset 0 and at EOF without trailing newline, calls spanning lines; commands: `ast-grep run -p .. -l js --json[=pretty|stream|compact]` with '
              '-A/-B/-C in {0,1,2,5}, with and without --rewrite, `ast-grep scan -r rule.yml --json=stream` (rule with fix), and `run --color never --heading never [-A/-B n]`. For every record: '
              'text == bytes[start:end]; start/end line = number of newlines before the offset, column = characters since the line start; the same for every single and multi meta-variable; lines == the whole '
              'lines [line(start)-B, line(end)+A] clipped to the file; charCount == characters of `lines` before/after the match; replacementOffsets a character-aligned range of the file; stdout parses as one '
              'JSON array (or one object per line) for any number of files; every path:N:text line of the plain report carries line N of that file. '
              'evaluations = CLI invocations. Non-trivial = distinct records preceded on their line by a multi-byte character, spanning lines, touching file start/end or carrying context, plus plain reports with >= 1 line.'
              ' Additions: empty lines inside multi-line calls and around statements.'
              ' Files starting with a byte order mark.'),
        floor={'quick': 300, 'thorough': 5000},
        level_text='Thousands of records per quick run are recomputed from the bytes on disk; held on the files, patterns, styles and context settings executed.',
        level_note='Trusted: python json and utf-8 decoding, the 60-line oracle in drivers/c16.py. Record ORDER is not judged.',
    ),
    'C15': dict(
        engines=[('py', 'c15')],
        cli=True,
        technique='runtime monitoring at the process boundary: independent applicability predicate (extension table, own glob matcher, severity/override/filter logic) vs `ast-grep scan --json` and its exit status',
        rule=('generated projects: 4-12 files in nested directories with many extensions (several per language, extensions of no language, one extension assigned by languageGlobs), 3-10 rules each '
              '`kind: <root kind of its language>` (fires exactly once per file it is applied to) with random language, severity, files and ignores globs of the forms **/*.ext, **/name.ext, dir/**, '
              'dir/**/*.ext and exact paths; 6 (quick) / 12 (thorough) invocations per project from the project root with none / blanket / per-id / mixed --error|--warning|--info|--hint|--off overrides or --filter. '
              'The observed set of (file, ruleId, severity) must equal applies(rule, file) = language AND (no files OR some files glob) AND no ignores glob AND effective severity != off AND id passes the filter, '
              'and exit status != 0 iff some reported finding has effective severity error. evaluations = invocations. Non-trivial = distinct invocations in which a glob or an override (not only the language) decides for some pair.'
              ' Additions: languageGlobs also re-assign extensions of built-in languages (ts, h, json, mjs, pyi).'
              ' 40% of the rules carry a fix.'),
        floor={'quick': 300, 'thorough': 10000},
        level_text='Hundreds (quick) to ~18 000 (thorough) invocations over generated layouts; every (rule, file) pair is decided by the independent predicate; held on the projects executed.',
        level_note='Trusted: the 15-line glob matcher restricted to forms whose meaning does not depend on `*` crossing `/`, the extension table copied from the language reference. Paths are taken relative to the project root without `./`.',
    ),
    'C17': dict(
        engines=[('py', 'c17')],
        cli=True,
        level='fault_enumeration',
        technique='runtime monitoring: offline checker over the producer/consumer event log (hook H3) with injected delays at produce/send/recv + differential oracle (tree run vs union of single-file runs) + fault injection per file + a many-files / slow-consumer workload; thorough tier repeats runs on a ThreadSanitizer build of the CLI (std instrumented)',
        rule=('generated trees of 40-90 (quick) / 50-400 (thorough) small js/py/rs/html/txt files in nested directories, searched with `ast-grep run -p .. -l js --json=stream -j N .` and '
              '`ast-grep scan -c sgconfig.yml --json=stream -j N .` (4 rules, 4 languages, html with injected script/style) for N in {1,2,4,8,16} (quick) / 1..16 (thorough), each repeated with '
              'differently seeded failpoint delays (produce up to 2 ms, send up to 2 ms, recv up to 3 ms) and once without. Oracle: the sorted multiset of records equals the union of the records of one '
              'single-file run per file; the H3 log must show exactly one produce_begin/produce_end per eligible path, items == send == recv, a single consumer thread. Fault enumeration: 12 files per tree '
              'are made empty / non-UTF-8 / larger than both size limits / a directory of the same name / a dangling symlink / unreadable (process runs as uid nobody): no record for them, all other records unchanged, output well-formed. '
              'evaluations = CLI runs over a tree. distinct_nontrivial = distinct interleaving signatures (hash of the (event, path) sequence of the log) actually observed; distinct consume orders are reported too.'
              ' Additional workloads: a 600-800 (quick) / 1500-3000 (thorough) file tree with a slow consumer (recv failpoint or a stdout reader that starts late; the evidence reports the maximum number of items in flight) and files deleted while the walk is in progress (every other file keeps its records, a vanished file contributes all of its records or none). One rule carries `ignores`, one Rust rule is restricted by `files` globs (so a language whose rules all have globs still has to be walked), and the modes `run --inspect entity` / `scan --inspect entity` (tracing on stderr while workers produce) are part of every tree.'),
        floor={'quick': 60, 'thorough': 2000},
        level_text='Every kind of per-file fault is injected in every tree and every run is checked both at the output and in the event log; schedules are sampled (the evidence lists how many distinct interleavings occurred), not enumerated.',
        level_note='Trusted: the hook events (single write(2) per line, emitted around produce/send/recv), the single-file runs as definition of "each file alone". The thorough tier repeats the tree workload on a ThreadSanitizer build of the CLI (DESIGN.md §9.7).',
    ),
    'C18': dict(
        engines=[('py', 'c18')],
        cli=True,
        technique='runtime monitoring at the process boundary: file bytes before/after vs an independent splice of the edits announced by the same command under --json; write events (hook H5)',
        rule=('generated trees of 3-9 js/py/html/txt files (nested and repeated calls so that matches nest and overlap, html with <script>/<style>, files nobody matches) and 1-6 rules out of 8 '
              '(two rules fixing the same span, a rule nested inside another rule\'s match, an expanding object fix, python/html/css rules, a rule without fix); mode `scan -U` in a project or '
              '`run -p .. -r .. -U`; each project is updated twice (quick) / three times (thorough) in a row. The announcement is the same command with --json=stream on an identical copy '
              '(`scan --json=stream -U` prints the diffs in application order without writing). Oracle per file: after == original with the accepted edits substituted, where an announced edit is '
              'accepted unless it overlaps an earlier accepted one; files without accepted edits and all config files byte-identical; `Applied N changes` == number of accepted edits. '
              'evaluations = update invocations. Non-trivial = distinct (file, rule set) with >= 2 accepted edits, or a dropped overlapping edit, or a file written more than once (several documents).'
              ' Additions: 240 (quick) / 2400 (thorough) projects in parallel; js/tsx/rs files; rules on single JavaScript node kinds (adjacent, nested and equal ranges), fixes that really expand (numbers followed by commas, expandStart), six `run` pattern/rewrite pairs; files start with blank lines / CRLF in half of the cases.'
              ' A fix that expands on both sides (neighbouring matches propose partially overlapping edits).'),
        floor={'quick': 60, 'thorough': 2000},
        level_text='Hundreds of update runs per quick tier with ~1000 accepted and ~800 dropped (overlapping) edits, every file compared byte for byte; held on the projects executed.',
        level_note='Trusted: the --json announcement of the same binary as statement of intent (its positions are judged by C16), the 10-line splice.',
    ),
    'C13': dict(
        engines=[('py', 'c13')],
        cli=True,
        technique='runtime monitoring at the process boundary: metamorphic oracle (permuted documents, fresh processes = fresh hash seeds, -j 1/-j 8) over canonicalised JSON records and snapshot hashes; hook H2 reports the key orders actually exercised',
        rule=('a project with three rules (utilities in chains and diamonds incl. a dependency through `has`, two global utility files, several constraints, a transformation chain T1->T2->T3, a rewrite '
              'transform with two rewriters, fix and message using transformed variables) over three source files; variants permute the keys of utils / constraints / transform and the top-level keys, '
              'shuffle rewriters, rename rule files or merge them into one multi-document file in shuffled order; every variant is scanned in 6 (quick) / 12 (thorough) fresh processes alternating -j 1 and -j 8. '
              'Oracle: the sorted multiset of records (each parsed and re-serialised with sorted keys: file, ruleId, range, message, replacement, replacementOffsets, metaVariables incl. transformed) is identical for '
              'all launches of all variants; `ast-grep test` exits 0 right after `test -U`, snapshot files are byte-identical across variants and a second `test -U` does not rewrite them. '
              'evaluations = process launches. distinct_nontrivial = distinct project variants; the evidence lists the distinct key orders seen per site (utils registration, transform order, constraint evaluation).'
              ' Additions: seven of eight projects are random utility graphs (references in every operator position, kind-less nthChild.ofRule, self-reference through relations, global utilities with local utilities of their own) with 2-4 fixable top rules matching the same nodes and a rule whose constraints bind further variables; the sources contain unused suppression directives; the accept/reject verdict of a launch is part of the compared result; `scan -U` is run on a copy of every variant and the resulting sources compared with variant 0; 64 (quick) / 480 (thorough) projects in parallel.'),
        floor={'quick': 100, 'thorough': 2500},
        level_text='Hundreds (quick) to thousands (thorough) of fresh-process launches over permuted but equivalent projects; the hash orders that actually occurred are counted from hook events; held on those.',
        level_note='Trusted: YAML/JSON map semantics (permutation preserves meaning), python canonicalisation. Record ORDER in the output is not part of the statement.',
    ),
    'C09': dict(
        engines=[('py', 'c09')],
        cli=True,
        technique='runtime monitoring at the process boundary: differential oracle across front ends (CLI styles, stdin, test runner, language server) + offline checker over client-side LSP notification histories with delay injection and cooperative yields at the server\'s await points (hook H4) and a liveness probe; thorough tier repeats 64 histories on a ThreadSanitizer build of the binary',
        rule=('(a) 25 (quick) / 300 (thorough) random rule sets (1-6 JavaScript rules: messages with variables, empty message, notes, all severities incl. off, with and without fix) x random texts: '
              '`scan FILE --json=stream|pretty|compact`, `scan --stdin -r` per rule, `--format github`, `--report-style short`, `test --skip-snapshot-tests` with the text filed as the scan says (must pass) and '
              'flipped (must fail), and publishDiagnostics after didOpen must list the same (ruleId, start, end, message) multiset (GitHub: error/warning/info only; LSP: documented note suffix and id-for-empty-message). '
              '(b) 40 / 600 notification histories over 1-3 URIs: open / change / close with increasing versions and stale versions delivered late, sent back-to-back; the client answers the server\'s '
              'workspace/workspaceFolders request immediately or only after k further notifications; failpoints delay the server at its existing await points. After the traffic has been quiet (bounded progress, '
              'watchdog => inconclusive) the server must still answer a request and the LAST diagnostics published for every open URI must be those of the highest-version text received since its last open '
              '(reference: a fresh session opening exactly that text). evaluations = CLI invocations + LSP sessions. Non-trivial = front-end cases with >= 2 findings from >= 2 rules, histories with >= 3 notifications on one URI; '
              'the evidence counts distinct server-side interleavings seen through H4.'
              ' Additions: texts contain multi-line statements and non-ASCII prefixes; 96 (quick) / 1200 (thorough) histories run 8 at a time, with a cooperative-yield failpoint at the await between storing a changed document and publishing its diagnostics; the thorough tier repeats 64 histories on a ThreadSanitizer build.'
              ' One rule is fixable and matches nested nodes (all report formats must list every nested match; the short style is compared for fix-less rules only).'),
        floor={'quick': 200, 'thorough': 3000},
        level_text='Hundreds of cross-front-end comparisons and tens to hundreds of hostile LSP histories per run; liveness is decided as bounded progress plus a /proc deadlock test; held on the histories and schedules that occurred.',
        level_note='Trusted: the stdlib JSON-RPC client (drivers/lspclient.py), regex parsers of the github/short formats, the fresh-session reference. Texts contain no ast-grep-ignore comments (C14 covers them).',
    ),
    'C08': dict(
        engines=[('py', 'c08')],
        cli=True,
        technique='runtime monitoring at the process boundary: differential oracle over five front ends (library make_edit, scan --json, scan -U, test -U snapshots, language-server diagnostics / quick-fix / fix-all)',
        rule=('40 (quick) / 400 (thorough) pairs of a JavaScript rule with fix (string form, object form with expandStart/expandEnd, patterns ending in punctuation so that the matched prefix is trimmed, multi-line '
              'replacements) and a generated source with several matches and multi-byte text. Per pair: (1) the library\'s make_edit for every match (vmon c08-lib), (2) replacementOffsets/replacement of '
              '`scan -r rule.yml --json=stream`, (3) the file bytes after `scan -r rule.yml -U` vs the splice of the announced edits, (4) `fixed` in tests/__snapshots__ after `test -U` vs the splice of the first '
              'library edit, (5) ranges and data.fixed of the published diagnostics, the TextEdits of textDocument/codeAction quick-fix and of source.fixAll (positions converted to byte offsets with the driver\'s own line table) '
              'must all denote the same (byte range, text). evaluations = pairs. Non-trivial = distinct pairs whose edit range differs from the matched node (trimming or expansion active) or whose replacement is multi-line.'
              ' Additions: 200 (quick) / 2000 (thorough) pairs run in parallel; sources start with blank lines / CRLF in a third of the cases and contain non-ASCII text before the matches; every second block of ten adds a rule without fix whose findings enclose the fixable ones; an LSP mismatch is attributed to the known `expanded` finding only if the offered ranges are exactly the complete set of unexpanded node ranges.'),
        floor={'quick': 30, 'thorough': 300},
        level_text='Every pair is observed through five independent front ends of the real binaries; held on the pairs executed.',
        level_note='Trusted: the snapshot YAML scalar reader and the position conversion in drivers/c08.py (characters per line as the server counts them; UTF-16 columns of astral characters are out of scope), the LSP client.',
    ),
}

NOT_APPLICABLE = {}
