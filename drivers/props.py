"""Per-property configuration of the orchestrator."""
PROPS = {
    'C19': dict(
        engines=[('vmon', 'c19')],
        technique='runtime monitoring: recursive-baseline oracle over the public Node API on corpus + mutated trees',
        level_text=('Every node of ~0.6 M (quick) / several M (thorough) nodes of real and damaged trees in 23 languages is checked against an '
                    'independent recursive baseline; held on the executions observed, nothing is proved.'),
        level_note='Trusted: children() as baseline, tree-sitter parse itself, the harness line/column routine. Two tree-sitter cursor defects are known findings.',
        rule=('every corpus file of 23 languages plus token-level mutants (deleted/duplicated/swapped tokens, multi-byte '
              'insertions, CRLF, truncation) and degenerate sources; every node is checked against a recursive baseline built '
              'from children() only (parent, child(i), nesting, ancestors, next/prev, next_all/prev_all incl. the root, '
              'Pre/Post/Level/Visitor traversals from the root and from inner nodes, line/character columns). '
              'Non-trivial = distinct (file, node) with >= 2 children in a file containing an ERROR node or a multi-byte character.'),
        floor={'quick': 100000, 'thorough': 1000000},
        assumptions=['children() enumerates the children of a node (it is the baseline of every clause)',
                     'sibling-sequence clause skipped under parents that have a zero-width child (statement)'],
    ),
}

NOT_APPLICABLE = {}
