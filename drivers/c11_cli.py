"""C11, CLI part: rule files, test files and project configs offered to the real binary; a process must
end by itself (any exit status), without a Rust panic message, a signal, a CPU-time overrun or a deadlock."""
import os, json, subprocess, time, signal, re, shutil, resource
import common
from common import ROOT, SG, VMON, new_report, add_violation, count

CPU_LIMIT = 10
SRC = {
    'a.js': 'foo(abc, 12);\nlet x = [1, 2, 3];\nfunction f(a) { return a + 1 }\n',
    'a3.js': 'const s = css`a { color: red }`;\nconst t = styled`b { margin: 0 }`;\n',
    'a2.js': "foo(cafÉ, aÉÈ_b);\r\nlet ÀÉcole = [naïveCafÉ, 'ÀÉ', `t${x}É`];\r\n\tfoo(ÉÉa, 1)\n",
    'b.py': 'def f(a):\n    return foo(a, 12)\n',
    'c.rs': 'fn m() { foo(abc, 12); }\n',
    'd.go': 'package m\nfunc m() { foo(abc, 12) }\n',
    'e.html': '<div class="a"><p>hi</p><script>foo(1)</script></div>\n',
    'f.css': 'a { color: red; margin: 1px 2px }\n',
    'g.yml': 'a: 1\nb: [1, 2]\n',
    'h.c': 'void m() { foo(abc, 12); }\n',
}


def proc_cpu_and_states(pid):
    total, states = 0, []
    try:
        for t in os.listdir(f'/proc/{pid}/task'):
            st = open(f'/proc/{pid}/task/{t}/stat').read()
            rest = st[st.rindex(')') + 2:].split()
            states.append(rest[0])
            total += int(rest[11]) + int(rest[12])
    except (FileNotFoundError, ProcessLookupError, ValueError):
        return None, []
    return total, states


def run_watched(args, cwd, stdin_data=None):
    """returns (status, rc, stderr) with status in ok|deadlock|cpu-limit|inconclusive"""
    def pre():
        resource.setrlimit(resource.RLIMIT_CPU, (CPU_LIMIT, CPU_LIMIT + 2))
        resource.setrlimit(resource.RLIMIT_CORE, (0, 0))
    env = dict(os.environ); env['NO_COLOR'] = '1'; env.pop('AST_GREP_VERIF_LOG', None)
    p = subprocess.Popen([SG] + args, cwd=cwd, stdin=subprocess.DEVNULL if stdin_data is None else subprocess.PIPE,
                         stdout=subprocess.DEVNULL, stderr=subprocess.PIPE, env=env, preexec_fn=pre)
    if stdin_data is not None:
        try:
            p.stdin.write(stdin_data); p.stdin.close()
        except BrokenPipeError:
            pass
    t0 = time.time()
    status = 'ok'
    idle_windows = 0
    while True:
        try:
            p.wait(timeout=0.05 if time.time() - t0 < 2 else 0.5)
            break
        except subprocess.TimeoutExpired:
            pass
        if time.time() - t0 > 4:
            # still alive: decide on logical progress, not on the wall clock
            samples = []
            for _ in range(3):
                samples.append(proc_cpu_and_states(p.pid)); time.sleep(1.0)
            if p.poll() is not None:
                break
            cpus = [s[0] for s in samples]
            if None in cpus:
                continue
            # no logical progress: all threads asleep and the CPU clock of the whole process advanced by at most
            # 2 ticks (20 ms) in 2 s -- threads that only wake up to poll each other count as asleep
            if cpus[2] - cpus[0] <= 2 and all(st in ('S', 'D') for st in samples[2][1]):
                idle_windows += 1
            else:
                idle_windows = 0
            if idle_windows >= 2:
                status = 'deadlock'
                p.kill(); p.wait(); break
            if time.time() - t0 > 120:
                status = 'inconclusive'
                p.kill(); p.wait(); break
    err = b''
    try:
        err = p.stderr.read()
    except Exception:
        pass
    rc = p.returncode
    if status == 'ok' and rc is not None and rc < 0:
        status = 'cpu-limit' if -rc in (signal.SIGXCPU, signal.SIGKILL) else f'signal/{-rc}'
    return status, rc, err.decode('utf-8', 'replace')


PANIC = re.compile(r"panicked at ([^\n:]+):(\d+)")


def judge(rep, what, status, rc, err, replay):
    rep['evaluations'] += 1
    m = PANIC.search(err)
    if status == 'deadlock':
        site = f"/after-panic/{os.path.relpath(m.group(1), '/repo') if m and m.group(1).startswith('/repo') else (m.group(1) if m else 'no-panic')}"
        add_violation(rep, f'C11/hang/deadlock{site}', f'{what}: process alive with all threads sleeping and no CPU progress; stderr: {err[-300:]!r}', replay)
    elif status == 'cpu-limit':
        add_violation(rep, 'C11/cpu-limit/cli', f'{what}: exceeded {CPU_LIMIT}s CPU', replay)
    elif status.startswith('signal/') and 'overflowed its stack' in err:
        import c11
        add_violation(rep, f"C11/abort/stack-overflow/cli/{c11.stack_site(replay)}", f'{what}: stack overflow in the CLI', replay)
    elif status.startswith('signal/'):
        add_violation(rep, f'C11/{status}/cli', f'{what}: killed by signal; stderr {err[-300:]!r}', replay)
    elif status == 'inconclusive' and m and (m.group(1).startswith('crates/') or m.group(1).startswith('/repo')):
        # the watchdog could not classify the process, but it printed a panic from ast-grep's own code
        f = os.path.relpath(m.group(1), '/repo') if m.group(1).startswith('/repo') else m.group(1)
        add_violation(rep, f'C11/panic/cli/{f}', f'{what}: {err[err.find("panicked at"):][:300]!r} (then no exit within the watchdog time)', replay)
    elif status == 'inconclusive':
        rep['inconclusive'] += 1
    elif m:
        f = m.group(1)
        f = os.path.relpath(f, '/repo') if f.startswith('/repo') else f
        add_violation(rep, f'C11/panic/cli/{f}', f'{what}: {err[err.find("panicked at"):][:300]!r} (exit {rc})', replay)
    elif rc == 101:
        add_violation(rep, 'C11/panic/cli/exit-101', f'{what}: exit status 101; stderr {err[-300:]!r}', replay)


def cases(seed, a, b):
    out = os.path.join(ROOT, 'work', f'c11dump-{os.getpid()}.json')
    p = subprocess.run([VMON, 'c11', '--seed', str(seed), f'dumpfrom={a}', f'dumpto={b}', '--out', out], capture_output=True, text=True, timeout=120)
    if p.returncode != 0:
        raise common.HarnessError('c11 dump failed: ' + p.stderr[-200:])
    d = json.load(open(out)); os.unlink(out)
    return d['samples']


WILD = ['', '~', '[]', '{}', '1', 'nope', '../..', '/dev/null', 'é', '- a', 'a: b', '"', '***']


INJ_WILD = ['[{hostLanguage: js, rule: {pattern: "css`$CONTENT`"}, injected: css}, {hostLanguage: js, rule: {pattern: "$TAG`$CONTENT`"}, injected: css}]',
            '[{hostLanguage: js, rule: {pattern: "$TAG`$CONTENT`"}, injected: css}, {hostLanguage: js, rule: {pattern: "$TAG`$CONTENT`"}, injected: css}]',
            '[{hostLanguage: js, rule: {pattern: "css`$CONTENT`"}, injected: nope}]', '[{hostLanguage: js, rule: {pattern: "css`$X`"}, injected: css}]',
            '[{hostLanguage: js, rule: {kind: template_string, pattern: $CONTENT}, injected: [css, js]}]']
LIST_WILD = ['[]', '[]', '[[]]', "['']", '[~]', '[1]', '[nope, rules]', '[rules, rules]', "['../..']", '[{}]', '[{testDir: nope}]', '[{testDir: tests, snapshotDir: ""}]']


GLOB_WILD = ["{js: ['src/[a-']}", "{js: ['**/*.{a']}", "{js: ['***']}", "{js: ['']}", "{js: [1]}", "{py: ['a/**/b', '[!']}", "{js: []}", "{js: ~}", "{rust: ['*.js'], js: ['*.rs']}", "{js: ['\\\\']}"] + WILD
RULE_EXTRAS = ['', '', 'severity: off\n', 'severity: off\nfiles: ["src/**"]\n', 'severity: off\nignores: ["nothing/**"]\n', 'files: ["src/[a-"]\n', 'ignores: [""]\n',
               'severity: hint\nfiles: []\n', 'files: ["**/*.js"]\nignores: ["**/a.js"]\n', 'severity: nope\n', 'files: 1\n', 'url: ~\nnote: ""\nmetadata: {a: [1, {b: ~}]}\n',
               'labels: {A: {style: primary, message: "m $A"}}\n', 'labels: {ZZ: {style: secondary}}\n', 'labels: {A: {style: nope}}\n']


def project_variants(rng):
    """(files, argv, description) for project-config and test-file inputs"""
    good_rule = 'id: r1\nlanguage: JavaScript\nrule: {pattern: "foo($A, $B)"}\nfix: "bar($A)"\n'
    good_test = 'id: r1\nvalid:\n  - bar(1)\ninvalid:\n  - foo(1, 2)\n'
    cfgs = [
        'ruleDirs: [rules]\ntestConfigs:\n  - testDir: tests\n',
        'ruleDirs: [rules]\nutilDirs: [utils]\ntestConfigs:\n  - testDir: tests\n    snapshotDir: snaps\n',
        f'ruleDirs: {rng.choice(WILD)}\n',
        f'ruleDirs: [rules]\ntestConfigs: {rng.choice(WILD)}\n',
        'ruleDirs: [rules]\nlanguageGlobs: ' + rng.choice(["{js: ['*.foo']}", "{nope: [x]}", "[]", "{js: 1}", "{html: ['*.js']}"]) + '\n',
        'ruleDirs: [rules]\ncustomLanguages: ' + rng.choice(["{x: {libraryPath: nope.so, extensions: [x]}}", "{}", "1", "{x: {}}"]) + '\n',
        'ruleDirs: [rules]\nlanguageInjections: ' + rng.choice(["[]", "[{hostLanguage: js, rule: {pattern: a}, injected: css}]", "[{hostLanguage: nope}]", "1"]) + '\n',
        'ruleDirs: [nonexistent]\n', '', '{', 'ruleDirs: [rules]\nbogus: 1\n', 'ruleDirs:\n  - rules\n  - rules\n',
    ]
    # every key of the project config: absent, well-formed, or a wild value of another shape
    good = {'ruleDirs': '[rules]', 'utilDirs': '[utils]', 'testConfigs': '[{testDir: tests}]', 'languageGlobs': "{js: ['*.foo']}",
            'languageInjections': '[{hostLanguage: js, rule: {pattern: "styled`$A`"}, injected: css}]', 'customLanguages': '{}'}
    for _ in range(8):
        # a well-formed config with exactly one key perturbed (so that loading gets as far as that key)
        victim = rng.choice(list(good))
        lines = []
        for k, g in good.items():
            if k == victim:
                pool = INJ_WILD + LIST_WILD[:4] if k == 'languageInjections' else LIST_WILD if k.endswith(("Dirs", "Configs")) else GLOB_WILD if k == 'languageGlobs' else WILD
                lines.append(f'{k}: {rng.choice(pool)}')
            elif k in ('ruleDirs', 'testConfigs') or rng.random() < 0.5:
                lines.append(f'{k}: {g}')
        rng.shuffle(lines)
        cfgs.append('\n'.join(lines) + '\n')
    tests = [good_test, 'id: r1\n', 'id: nope\nvalid: [a]\ninvalid: [b]\n', f'id: r1\nvalid: {rng.choice(WILD)}\ninvalid: {rng.choice(WILD)}\n',
             'id: r1\nvalid: [1, {a: b}]\ninvalid: [~]\n', '', '- a', 'id: r1\nvalid: []\ninvalid: []\n---\nid: r1\nvalid: [x]\ninvalid: [foo(1,2)]\n',
             'id: r1\nvalid:\n  - "foo(1, 2)"\ninvalid:\n  - "bar()"\n']
    utils = ['id: u1\nlanguage: JavaScript\nrule: {kind: number}\n', 'id: u1\nlanguage: JavaScript\nrule: {matches: u1}\n',
             f'id: u1\nlanguage: {rng.choice(["JavaScript", "nope"])}\nrule: {rng.choice(WILD)}\n', 'id: u1\nlanguage: JavaScript\nrule: {kind: number}\n---\nid: u1\nlanguage: JavaScript\nrule: {kind: string}\n']
    snaps = ['id: r1\nsnapshots: {}\n', 'id: r1\nsnapshots:\n  foo(1, 2):\n    fixed: bar(1)\n    labels: []\n', 'id: r1\nsnapshots: 1\n', rng.choice(WILD)]
    files = dict(SRC)
    files = {'src/' + k: v for k, v in files.items()}
    files['sgconfig.yml'] = rng.choice(cfgs)
    files['rules/r1.yml'] = rng.choice([good_rule, good_rule, good_rule + rng.choice(RULE_EXTRAS), good_rule + rng.choice(RULE_EXTRAS), 'id: r1\nlanguage: JavaScript\nrule: {kind: nope}\n', rng.choice(WILD)])
    files['tests/r1-test.yml'] = rng.choice(tests)
    files['utils/u1.yml'] = rng.choice(utils)
    files['snaps/r1-snapshot.yml'] = rng.choice(snaps)
    files['tests/__snapshots__/r1-snapshot.yml'] = rng.choice(snaps)
    argv = rng.choice([['scan', '-c', 'sgconfig.yml', '--json=stream'], ['test', '-c', 'sgconfig.yml'], ['test', '-c', 'sgconfig.yml', '--skip-snapshot-tests'],
                       ['scan', '--json=stream'], ['test', '-c', 'sgconfig.yml', '-U'], ['scan', '-c', 'sgconfig.yml', '-U'],
                       # every printer: the coloured report, the short style, the GitHub format
                       ['scan', '-c', 'sgconfig.yml', '--color', 'never'], ['scan', '--report-style', 'short', '--color', 'never'], ['scan', '--format', 'github'],
                       ['scan', '-c', 'sgconfig.yml', '--color', 'never', '-A', '1']])
    return files, argv


def run_into(ctx, rep):
    work = ctx.workdir()
    n_rules = 1500 if ctx.thorough else 220
    n_proj = 1200 if ctx.thorough else 240
    base = 7_000_000 + ctx.seed * 10000
    src = os.path.join(work, 'src'); common.write_tree(src, SRC)
    import concurrent.futures as cf
    cs = cases(ctx.seed, base, base + n_rules)

    def one_rule(i_case):
        i, c = i_case
        r = new_report()
        rp = os.path.join(work, f'rule-{i}.yml'); open(rp, 'w').write(c['yaml'])
        mode = i % 3
        if mode == 0:
            args = ['scan', '-r', rp, '--json=stream', 'src']
        elif mode == 1:
            args = ['scan', '--inline-rules', c['yaml'], '--json=stream', 'src']
        else:
            args = ['scan', '-r', rp, '-j', '4', 'src']
        status, rc, err = run_watched(args, work)
        judge(r, f'scan with rule #{c["index"]} ({c["generator"]})', status, rc, err, {'monitor': 'py:c11', 'cli': True, 'kind': 'rule', 'yaml': c['yaml'], 'argv': args[:1] + ['-r', 'RULE'] + args[3:] if mode != 1 else ['scan', '--inline-rules', 'RULE', '--json=stream', 'src']})
        os.unlink(rp)
        if rc == 0:
            r['distinct_nontrivial'] += 1
        return r
    with cf.ThreadPoolExecutor(max_workers=common.NCPU) as ex:
        for r in ex.map(one_rule, enumerate(cs)):
            c11m(rep, r)
    count(rep, 'cli_rule_files', len(cs))

    def one_proj(k):
        r = new_report()
        import random
        rng = random.Random(f'{ctx.seed}-proj-{k}')
        files, argv = project_variants(rng)
        d = os.path.join(work, f'proj-{k}')
        common.write_tree(d, files)
        status, rc, err = run_watched(argv, d)
        judge(r, f'{" ".join(argv)} in generated project', status, rc, err, {'monitor': 'py:c11', 'cli': True, 'kind': 'project', 'files': files, 'argv': argv})
        shutil.rmtree(d, ignore_errors=True)
        r['distinct_nontrivial'] += 1
        return r
    with cf.ThreadPoolExecutor(max_workers=common.NCPU) as ex:
        for r in ex.map(one_proj, range(n_proj)):
            c11m(rep, r)
    count(rep, 'cli_projects', n_proj)
    # the full product severity x files/ignores x printer for one well-formed matching rule
    combos = []
    for sev in ['error', 'warning', 'info', 'hint', 'off']:
        for globs in ['', 'files: ["src/**"]\n', 'ignores: ["nothing/**"]\n', 'files: ["**/*.js"]\nignores: ["**/zzz.js"]\n']:
            for fix in ['', 'fix: "bar($A)"\n']:
                for argv in (['scan', '--color', 'never'], ['scan', '--json=stream'], ['scan', '--format', 'github'], ['scan', '--report-style', 'short', '--color', 'never'], ['scan', '-U']):
                    combos.append((sev, globs, fix, argv))

    def one_combo(ic):
        i, (sev, globs, fix, argv) = ic
        r = new_report()
        files = {'src/' + k: v for k, v in SRC.items()}
        files['sgconfig.yml'] = 'ruleDirs: [rules]\n'
        files['rules/r1.yml'] = f'id: r1\nlanguage: JavaScript\nrule: {{pattern: "foo($A, $B)"}}\nseverity: {sev}\n{globs}{fix}'
        d = os.path.join(work, f'combo-{i}')
        common.write_tree(d, files)
        status, rc, err = run_watched(argv, d)
        judge(r, f'{" ".join(argv)} with severity {sev} {globs.strip()!r}', status, rc, err, {'monitor': 'py:c11', 'cli': True, 'kind': 'project', 'files': files, 'argv': argv})
        shutil.rmtree(d, ignore_errors=True)
        r['distinct_nontrivial'] += 1
        return r
    with cf.ThreadPoolExecutor(max_workers=common.NCPU) as ex:
        for r in ex.map(one_combo, enumerate(combos)):
            c11m(rep, r)
    count(rep, 'cli_severity_glob_printer_combinations', len(combos))
    ctx.cleanup()
    return rep


def c11m(rep, r):
    rep['evaluations'] += r['evaluations']
    rep['distinct_nontrivial'] += r['distinct_nontrivial']
    rep['inconclusive'] += r['inconclusive']
    for v in r['violations']:
        add_violation(rep, v['signature'], v['what'], v['replay'])


def replay(ctx, r):
    rep = new_report()
    work = ctx.workdir()
    if r.get('kind') == 'project':
        d = os.path.join(work, 'proj'); common.write_tree(d, r['files'])
        status, rc, err = run_watched(r['argv'], d)
        judge(rep, 'replay project', status, rc, err, r)
    else:
        common.write_tree(os.path.join(work, 'src'), SRC)
        rp = os.path.join(work, 'rule.yml'); open(rp, 'w').write(r['yaml'])
        args = [rp if a == 'RULE' and i > 0 and r['argv'][i - 1] == '-r' else (r['yaml'] if a == 'RULE' else a) for i, a in enumerate(r['argv'])]
        status, rc, err = run_watched(args, work)
        judge(rep, 'replay rule', status, rc, err, r)
    ctx.cleanup()
    return rep
