"""C15: a rule runs on a file exactly when language, globs and severity say so; exit status."""
import os, json, re, shutil, hashlib
import common
from common import sg, new_report, add_violation, count

LANGS = {
    'JavaScript': (['js', 'mjs', 'cjs', 'jsx'], 'program', 'foo(1)\n'),
    'TypeScript': (['ts', 'mts'], 'program', 'let a: number = 1\n'),
    'Python': (['py', 'pyi'], 'module', 'x = 1\n'),
    'Rust': (['rs'], 'source_file', 'fn main() {}\n'),
    'Go': (['go'], 'source_file', 'package m\n'),
    'Java': (['java'], 'program', 'class A {}\n'),
    'C': (['c', 'h'], 'translation_unit', 'int x;\n'),
    'Css': (['css'], 'stylesheet', 'a { color: red }\n'),
    'Json': (['json'], 'document', '{"a": 1}\n'),
    'Yaml': (['yml', 'yaml'], 'stream', 'a: 1\n'),
    'Html': (['html'], 'document', '<p>x</p>\n'),
}
NOLANG = ['txt', 'md', 'foo', 'conf']
DIRS = ['', 'src', 'src/lib', 'test', 'src/deep/er', 'pkg']
NAMES = ['a', 'b', 'main', 'index', 'util']
SEVS = ['error', 'warning', 'info', 'hint', 'off']


def glob_to_re(g):
    out = ''
    i = 0
    while i < len(g):
        if g.startswith('**/', i):
            out += '(?:.*/)?'; i += 3
        elif g.startswith('/**', i) and i + 3 == len(g):
            out += '/.*'; i += 3
        elif g[i] == '*':
            out += '[^/]*'; i += 1
        else:
            out += re.escape(g[i]); i += 1
    return re.compile('^' + out + '$')


def gen_glob(rng, files):
    f = rng.choice(files)
    d, base = os.path.split(f)
    ext = base.rsplit('.', 1)[1]
    forms = [f'**/*.{ext}', f'**/{base}', f]
    if d:
        top = d.split('/')[0]
        forms += [f'{top}/**', f'{top}/**/*.{ext}', f'{d}/**']
    return rng.choice(forms)


def gen_project(rng):
    files = {}
    # an extension without language, or one that belongs to a built-in language and is re-assigned
    globbed_ext = rng.choice([None, 'foo', 'conf', 'ts', 'h', 'json', 'mjs', 'pyi'])
    glob_lang = rng.choice(['JavaScript', 'Yaml', 'Python'])
    for _ in range(rng.randint(4, 12)):
        lang = rng.choice(list(LANGS) + ['-'])
        d = rng.choice(DIRS)
        name = rng.choice(NAMES)
        if lang == '-':
            ext = rng.choice(NOLANG); content = 'plain text\n'
        else:
            ext = rng.choice(LANGS[lang][0]); content = LANGS[lang][2]
        if ext == globbed_ext:
            content = LANGS[glob_lang][2]
        files[os.path.join(d, f'{name}.{ext}')] = content
    paths = sorted(files)
    rules = []
    for i in range(rng.randint(3, 10)):
        lang = rng.choice(list(LANGS))
        r = {'id': f'r{i}-{lang.lower()}', 'language': lang, 'rule': {'kind': LANGS[lang][1]}, 'message': f'm{i}'}
        if rng.random() < 0.8:
            r['severity'] = rng.choice(SEVS)
        if rng.random() < 0.4:
            r['fix'] = 'FIXED'          # findings of fixable rules count for the exit status like any other
        if rng.random() < 0.5:
            r['files'] = [gen_glob(rng, paths) for _ in range(rng.randint(1, 2))]
        if rng.random() < 0.4:
            r['ignores'] = [gen_glob(rng, paths) for _ in range(rng.randint(1, 2))]
        rules.append(r)
    cfg = 'ruleDirs: [rules]\n'
    lang_globs = {}
    if globbed_ext:
        alias = {'JavaScript': 'js', 'Yaml': 'yaml', 'Python': 'py'}[glob_lang]
        cfg += f'languageGlobs:\n  {alias}: ["*.{globbed_ext}"]\n'
        lang_globs[globbed_ext] = glob_lang
    return files, rules, cfg, lang_globs


def gen_overrides(rng, rules):
    ids = [r['id'] for r in rules]
    kind = rng.choice(['none', 'none', 'blanket', 'per-id', 'mixed', 'filter', 'off-id'])
    argv, blanket, per_id, flt = [], None, {}, None
    if kind == 'blanket':
        blanket = rng.choice(SEVS)
        argv.append(f'--{blanket}')
    elif kind in ('per-id', 'mixed', 'off-id'):
        chosen = rng.sample(ids, min(len(ids), rng.randint(1, 3)))
        for i in chosen:
            s = 'off' if kind == 'off-id' else rng.choice(SEVS)
            per_id[i] = s
            argv.append(f'--{s}={i}')
        if kind == 'mixed':
            left = [s for s in SEVS if s not in per_id.values()]
            if left:
                blanket = rng.choice(left)
                argv.append(f'--{blanket}')
    elif kind == 'filter':
        flt = rng.choice(['^r[0-3]-', 'script$', 'python|rust|go', 'css|c$', '^r1'])
        if not any(re.search(flt, i) for i in ids):
            flt = None
        else:
            argv += [f'--filter={flt}']
    return argv, blanket, per_id, flt


def lang_of(path, lang_globs):
    ext = path.rsplit('.', 1)[1]
    if ext in lang_globs:
        return lang_globs[ext]
    for l, (exts, _, _) in LANGS.items():
        if ext in exts:
            return l
    return None


def parse_overrides(args):
    blanket, per_id, flt = None, {}, None
    for a in args:
        m = re.match(r'^--(error|warning|info|hint|off)(?:=(.*))?$', a)
        if m:
            if m.group(2) is None:
                blanket = m.group(1)
            else:
                per_id[m.group(2)] = m.group(1)
        if a.startswith('--filter='):
            flt = a[len('--filter='):]
    return blanket, per_id, flt


def judge(rep, tree, args, d):
    rules = [json.loads(v) for p, v in sorted(tree.items()) if p.startswith('rules/')]
    lang_globs = {}
    m = re.search(r'languageGlobs:\n  (\w+): \["\*\.(\w+)"\]', tree['sgconfig.yml'])
    if m:
        lang_globs[m.group(2)] = {'js': 'JavaScript', 'yaml': 'Yaml', 'py': 'Python'}[m.group(1)]
    blanket, per_id, flt = parse_overrides(args)
    rc, out, err = sg(args, cwd=d)
    rep['evaluations'] += 1
    replay = {'monitor': 'py:c15', 'tree': tree, 'argv': args}
    try:
        recs = [json.loads(l) for l in out.decode().splitlines() if l.strip()]
    except Exception as ex:
        add_violation(rep, 'C15/output-unreadable', f'{" ".join(args)}: {ex}; stderr {err[-200:]!r}', replay); return
    got = sorted((r['file'][2:] if r['file'].startswith('./') else r['file'], r['ruleId'], r.get('severity')) for r in recs)
    want = []
    decided = False
    for r in rules:
        eff = per_id.get(r['id'], blanket if blanket else r.get('severity', 'hint'))
        if flt and not re.search(flt, r['id']):
            continue
        for p in sorted(tree):
            if lang_of(p, lang_globs) != r['language']:
                continue
            fg = r.get('files'); ig = r.get('ignores')
            if fg or ig or r['id'] in per_id or blanket or flt:
                decided = True
            if ig and any(glob_to_re(g).match(p) for g in ig):
                continue
            if fg and not any(glob_to_re(g).match(p) for g in fg):
                continue
            if eff == 'off':
                continue
            want.append((p, r['id'], eff))
    want.sort()
    what = ' '.join(args)
    if [(a, b) for a, b, _ in got] != [(a, b) for a, b, _ in want]:
        missing = [x for x in want if (x[0], x[1]) not in {(a, b) for a, b, _ in got}]
        extra = [x for x in got if (x[0], x[1]) not in {(a, b) for a, b, _ in want}]
        attr = 'filter' if flt else 'override' if (blanket or per_id) else 'plain'
        kind = 'missing' if missing and not extra else 'extra' if extra and not missing else 'differs'
        add_violation(rep, f'C15/applies/{kind}/{attr}', f'{what}: missing {missing[:4]} extra {extra[:4]} stderr={err[-160:]!r}', replay)
    else:
        sev_bad = [(g, w) for g, w in zip(got, want) if g[2] != w[2]]
        if sev_bad:
            add_violation(rep, 'C15/severity-reported', f'{what}: {sev_bad[:3]}', replay)
    has_error = any(s == 'error' for _, _, s in got)
    if (rc != 0) != has_error:
        add_violation(rep, f'C15/exit-status/{"nonzero-without-error" if rc != 0 else "zero-with-error"}', f'{what}: exit {rc}, findings with severity error: {has_error}; stderr {err[-200:]!r}', replay)
    if decided and want:
        rep['_nt'].add(hashlib.sha1(json.dumps([tree, args], sort_keys=True).encode()).hexdigest())
    count(rep, 'pairs_expected', len(want))


def run_project(rep, ctx, work, k, rng):
    files, rules, cfg, lang_globs = gen_project(rng)
    d = os.path.join(work, f'p{k}')
    tree = dict(files)
    tree['sgconfig.yml'] = cfg
    for r in rules:
        tree[f'rules/{r["id"]}.yml'] = json.dumps(r)
    common.write_tree(d, tree)
    for inv in range(6 if not ctx.thorough else 12):
        argv, _, _, _ = gen_overrides(rng, rules)
        judge(rep, tree, ['scan', '--json=stream'] + argv, d)
    shutil.rmtree(d, ignore_errors=True)


def run(ctx):
    rep = new_report(); rep['_nt'] = set()
    work = ctx.workdir()
    n = 1500 if ctx.thorough else 120
    for k in range(n):
        run_project(rep, ctx, work, k, ctx.rng)
    rep['distinct_nontrivial'] = len(rep.pop('_nt'))
    rep['samples'].append({'rule': {'id': 'r1-python', 'language': 'Python', 'rule': {'kind': 'module'}, 'files': ['src/**/*.py'], 'ignores': ['**/main.py'], 'severity': 'warning'}, 'argv': ['scan', '--json=stream', '--error=r1-python', '--off']})
    ctx.cleanup()
    return rep


def replay(ctx, r):
    rep = new_report(); rep['_nt'] = set()
    d = os.path.join(ctx.workdir(), 'replay')
    common.write_tree(d, r['tree'])
    judge(rep, r['tree'], r['argv'], d)
    rep.pop('_nt')
    ctx.cleanup()
    return rep
