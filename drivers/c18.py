"""C18: `--update-all` writes exactly the announced edits and nothing else."""
import os, json, re, shutil, hashlib
import common
from common import sg, new_report, add_violation, count

JS_LINES = ['q = [1, 2, 3, 4];', 'foo([5, 6], [7]);', 'foo(1, 2, x);', 'bar(7, [8, 9], 10);', 'foo(x)(y);', 'a.b.c(d, e);', 'g(-x, !y);', 'foo(1)(2)(3);', 'foo(1);', 'foo(foo(2));', 'let a = foo(b) + foo(3);', 'bar(4);', 'foo("é🦀", 5);', 'function f() { return foo(foo(foo(6))); }', '// foo(7)', 'foo(\n  8\n);', 'x = 9;']
PY_LINES = ['foo(1)', 'y = foo(foo(2))', 'print(3)', 'def g():\n    return foo(4)']
HTML = ['<div><script>foo(1); bar(foo(2))</script><p>foo</p></div>\n', '<p>text</p><style>a { color: red }</style>\n<script>let v = foo(3)</script>\n', '<p>no code 4</p>\n']
RULE_POOL = [
    {'id': 'js-foo-bar', 'language': 'JavaScript', 'rule': {'pattern': 'foo($A)'}, 'fix': 'bar($A)'},
    {'id': 'js-foo-baz', 'language': 'JavaScript', 'rule': {'pattern': 'foo($$$A)'}, 'fix': 'baz($$$A)'},
    {'id': 'js-num', 'language': 'JavaScript', 'rule': {'kind': 'number'}, 'fix': '0'},
    {'id': 'js-num-exp', 'language': 'JavaScript', 'rule': {'kind': 'number', 'inside': {'kind': 'arguments'}}, 'fix': {'template': '', 'expandEnd': {'regex': '^,$'}}},
    {'id': 'js-id-exp', 'language': 'JavaScript', 'rule': {'kind': 'identifier', 'regex': '^[xy]$', 'inside': {'kind': 'arguments'}}, 'fix': {'template': 'ID', 'expandStart': {'regex': '^,$'}}},
    {'id': 'js-el-both', 'language': 'JavaScript', 'rule': {'kind': 'number', 'inside': {'kind': 'array'}}, 'fix': {'template': '', 'expandStart': {'regex': '^,$'}, 'expandEnd': {'regex': '^,$'}}},
    {'id': 'py-foo', 'language': 'Python', 'rule': {'pattern': 'foo($A)'}, 'fix': 'qux($A)'},
    {'id': 'html-p', 'language': 'Html', 'rule': {'kind': 'element', 'regex': '^<p>'}, 'fix': '<span>replaced</span>'},
    {'id': 'css-decl', 'language': 'Css', 'rule': {'kind': 'declaration'}, 'fix': 'color: blue'},
    {'id': 'js-nofix', 'language': 'JavaScript', 'rule': {'pattern': 'bar($$$A)'}},
    {'id': 'tsx-selfclose', 'language': 'Tsx', 'rule': {'pattern': '<$T/>'}, 'fix': '<$T></$T>'},
    {'id': 'rs-some', 'language': 'Rust', 'rule': {'pattern': 'Some($A)'}, 'fix': '$A'},
]
# (pattern, rewrite, language) for `sg run`
RUN_POOL = [('foo($A)', 'bar($A)', 'js'), ('foo($A)', 'bar($A)', 'js'), ('<$T/>', '<$T></$T>', 'tsx'), ('Some($A)', '$A', 'rs'),
            ('$A($B)', '$B', 'js'), ('foo($$$A)', '', 'js')]
JS_KINDS = ['identifier', 'arguments', 'number', 'string', 'call_expression', 'expression_statement', 'binary_expression',
            'member_expression', 'property_identifier', 'statement_block', 'return_statement', 'comment', 'unary_expression',
            'lexical_declaration', 'variable_declarator', 'parenthesized_expression']
TSX_LINES = ['const a = <><a/><b/><c/></>;', 'let v = <p><x/> <y/></p>;', 'foo(<z/>);', 'const n = 1;']
RS_LINES = ['fn a() { let x = Some(Some(1)); }', 'fn b() -> Option<u8> { Some(2) }', 'fn c() { foo(Some(3), Some(Some(Some(4)))); }', '// Some(5)']


def kind_rule(rng, i):
    """a fixable rule on one JavaScript node kind: many of these on one file give adjacent, nested and equal ranges"""
    return {'id': f'k{i}-{rng.choice("abxyz")}', 'language': 'JavaScript', 'rule': {'kind': rng.choice(JS_KINDS)},
            'fix': rng.choice(['X', '', '(y)', 'q.r', '"s"', 'id', '/*c*/'])}


def gen_tree(rng):
    files = {}
    for i in range(rng.randint(3, 9)):
        kind = rng.choice(['js', 'js', 'js', 'py', 'html', 'txt', 'js', 'tsx', 'rs'])
        d = rng.choice(['', 'src', 'src/x'])
        if kind == 'js':
            text = '\n'.join(rng.choice(JS_LINES) for _ in range(rng.randint(1, 6))) + rng.choice(['\n', ''])
        elif kind == 'py':
            text = '\n'.join(rng.choice(PY_LINES) for _ in range(rng.randint(1, 4))) + '\n'
        elif kind == 'tsx':
            text = '\n'.join(rng.choice(TSX_LINES) for _ in range(rng.randint(1, 4))) + rng.choice(['\n', ''])
        elif kind == 'rs':
            text = '\n'.join(rng.choice(RS_LINES) for _ in range(rng.randint(1, 4))) + '\n'
        elif kind == 'html':
            text = ''.join(rng.choice(HTML) for _ in range(rng.randint(1, 2)))
        else:
            text = 'foo(1) is just text 1\n'
        # the syntax tree's root node does not start at byte 0 in a file that begins with blank lines
        files[os.path.join(d, f'f{i}.{kind}')] = rng.choice(['', '', '', '\n\n', '  \n', '\r\n', '\n']) + text
    return files


def read_tree(d, files):
    return {p: open(os.path.join(d, p), 'rb').read() for p in files}


def accepted_edits(announced):
    """announced: list of (start, end, replacement bytes) in announcement order"""
    acc = []
    for s, e, t in announced:
        if any(s < ae and as_ < e or (s == e and as_ <= s < ae) for as_, ae, _ in acc):
            continue
        acc.append((s, e, t))
    return acc


def splice(data, edits):
    out = bytearray(); at = 0
    # accepted edits never overlap; zero-width insertions at one offset keep the order in which they were accepted
    for s, e, t in sorted(edits, key=lambda x: (x[0], x[1])):
        out += data[at:s]; out += t; at = e
    out += data[at:]
    return bytes(out)


def one_invocation(rep, work, files_before, rules, mode, k, it, runspec=None):
    """files_before: {path: bytes}. returns files after"""
    tree = {p: v for p, v in files_before.items()}
    cfg = {'sgconfig.yml': b'ruleDirs: [rules]\n'}
    for r in rules:
        cfg[f'rules/{r["id"]}.yml'] = json.dumps(r).encode()
    a = os.path.join(work, f'a{k}'); b = os.path.join(work, f'b{k}')
    for d in (a, b):
        shutil.rmtree(d, ignore_errors=True)
        common.write_tree(d, {**tree, **cfg})
    if mode == 'scan':
        ann_args = ['scan', '--json=stream', '-U']
        upd_args = ['scan', '-U']
    else:
        pat, rw, lang = runspec or RUN_POOL[0]
        ann_args = ['run', '-p', pat, '-r', rw, '-l', lang, '--json=stream', '.']
        upd_args = ['run', '-p', pat, '-r', rw, '-l', lang, '-U', '.']
    log = os.path.join(work, f'log{k}.jsonl')
    rc1, out1, err1 = sg(ann_args, cwd=a)
    rc2, out2, err2 = sg(upd_args, cwd=b, env={'AST_GREP_VERIF_LOG': log})
    rep['evaluations'] += 1
    replay = {'monitor': 'py:c18', 'files': {p: v.decode('utf-8') for p, v in tree.items()}, 'rules': rules, 'mode': mode, 'runspec': runspec}
    what = f'{" ".join(upd_args)} (invocation {it})'
    writes = {}
    if os.path.exists(log):
        for line in open(log):
            if '"write"' in line:
                e = json.loads(line)
                p = e['path'][2:] if e['path'].startswith('./') else e['path']
                writes[p] = writes.get(p, 0) + 1
        os.unlink(log)
    try:
        recs = [json.loads(l) for l in out1.decode('utf-8').splitlines() if l.strip()]
    except Exception as ex:
        add_violation(rep, 'C18/announcement-unreadable', f'{what}: {ex}', replay); return tree
    # the announcing run must not have written anything
    after_a = read_tree(a, tree)
    if after_a != tree:
        add_violation(rep, 'C18/json-run-writes', f'{" ".join(ann_args)} modified files', replay)
    announced = {}
    for r in recs:
        if 'replacementOffsets' not in r:
            continue
        p = r['file'][2:] if r['file'].startswith('./') else r['file']
        announced.setdefault(p, []).append((r['replacementOffsets']['start'], r['replacementOffsets']['end'], r['replacement'].encode('utf-8')))
    after = read_tree(b, tree)
    total = 0
    for p in sorted(tree):
        acc = accepted_edits(announced.get(p, []))
        want = splice(tree[p], acc)
        total += len(acc)
        multi_doc = p.endswith('.html') and writes.get(p, 0) > 1
        if after[p] != want:
            if not acc:
                sig = 'C18/untouched-file-modified'
            elif multi_doc:
                sig = 'C18/multi-document-file'
            else:
                sig = f'C18/content/{mode}'
            add_violation(rep, sig, f'{what}: {p} is {after[p][:120]!r}, announced edits give {want[:120]!r} (written {writes.get(p, 0)}x)', replay)
        srt = sorted(acc)
        if any(srt[i][1] == srt[i + 1][0] for i in range(len(srt) - 1)):
            count(rep, 'files_with_touching_edits')
        if len(acc) >= 2 or len(announced.get(p, [])) > len(acc) or multi_doc:
            rep['_nt'].add(hashlib.sha1(tree[p] + json.dumps([rules, mode]).encode()).hexdigest())
    m = re.search(r'Applied (\d+) changes', out2.decode('utf-8', 'replace'))
    n = int(m.group(1)) if m else 0
    if n != total:
        multi = any(p.endswith('.html') and writes.get(p, 0) > 1 for p in tree)
        add_violation(rep, 'C18/applied-count' + ('/multi-document-file' if multi else ''), f'{what}: reports {n} applied changes, the announcement implies {total}', replay)
    # config files untouched
    for p, v in cfg.items():
        if open(os.path.join(b, p), 'rb').read() != v:
            add_violation(rep, 'C18/config-file-modified', f'{what}: {p} changed', replay)
    count(rep, 'edits_accepted', total)
    count(rep, 'edits_dropped', sum(len(v) for v in announced.values()) - total)
    count(rep, 'paths_written_more_than_once', sum(1 for v in writes.values() if v > 1))
    for d in (a, b):
        shutil.rmtree(d, ignore_errors=True)
    return after


def run_project(ctx, work, k):
    import random
    rng = random.Random(f'C18-{ctx.seed}-{k}')
    rep = new_report(); rep['_nt'] = set()
    files = {p: v.encode('utf-8') for p, v in gen_tree(rng).items()}
    rules = rng.sample(RULE_POOL, rng.randint(1, 6)) + [kind_rule(rng, i) for i in range(rng.choice([0, 0, 1, 2, 3]))]
    mode = rng.choice(['scan', 'scan', 'run'])
    runspec = rng.choice(RUN_POOL)
    cur = files
    for it in range(2 if not ctx.thorough else 3):
        cur = one_invocation(rep, work, cur, rules, mode, k, it, runspec)
    return rep


def run(ctx):
    import concurrent.futures as cf
    rep = new_report(); nt = set()
    work = ctx.workdir()
    n = 2400 if ctx.thorough else 240
    with cf.ThreadPoolExecutor(max_workers=common.NCPU) as ex:
        subs = list(ex.map(lambda k: run_project(ctx, work, k), range(n)))
    for sub in subs:
        nt |= sub.pop('_nt')
        rep['evaluations'] += sub['evaluations']
        for kk, v in sub['counters'].items():
            count(rep, kk, v)
        for v in sub['violations']:
            add_violation(rep, v['signature'], v['what'], v['replay'])
    rep['distinct_nontrivial'] = len(nt)
    rep['samples'].append({'rules': ['js-foo-bar', 'js-num', 'html-p', 'k0-x (kind: arguments -> X)'], 'file': 'foo(foo(2));\nlet a = foo(b) + foo(3);\n', 'commands': ['scan --json=stream -U (announcement)', 'scan -U (update)']})
    ctx.cleanup()
    return rep


def replay(ctx, r):
    rep = new_report(); rep['_nt'] = set()
    one_invocation(rep, ctx.workdir(), {p: v.encode('utf-8') for p, v in r['files'].items()}, r['rules'], r['mode'], 0, 0, r.get('runspec'))
    rep.pop('_nt')
    ctx.cleanup()
    return rep
