"""C08: one rule, one fix: library, `scan --json`, `scan -U`, `test -U` snapshots and the language server
propose the same edit (byte range and text)."""
import os, json, re, shutil, hashlib, subprocess, tempfile
import common
from common import ROOT, VMON, sg, new_report, add_violation, count
from lspclient import Lsp

SRC_LINES = ['é = "ü"; foo(1, b);', '/* 日本 */ foo(a);', 'let y = foo("🦀", 3); // ñ', 'ｆ("ß", 11); foo(c, 12);', 'foo(1, b);', 'foo(a);', 'let x = foo(2, 3);', 'bar(4, "é🦀", 5);', 'foo(\n  6,\n  c\n);', 'baz([7, 8], 9)', 'foo(d, 10) // tail']
FIXES = [
    # (rule body, fix) — string form, object form with expansions, trailing punctuation, multi-line replacement
    ({'pattern': 'foo($A, $B)'}, 'bar($B, $A)'),
    ({'pattern': 'foo($$$ARGS);'}, 'qux($$$ARGS)'),
    ({'kind': 'number', 'inside': {'kind': 'arguments'}}, {'template': '', 'expandEnd': {'regex': '^,$'}}),
    ({'kind': 'number', 'inside': {'kind': 'arguments'}}, {'template': '0', 'expandStart': {'regex': '^,$'}}),
    ({'kind': 'identifier', 'regex': '^[a-d]$', 'inside': {'kind': 'arguments'}}, {'template': 'ID', 'expandStart': {'regex': '^[(,]$'}, 'expandEnd': {'regex': '^[,)]$'}}),
    ({'pattern': 'let $V = $E;'}, 'const $V =\n    $E'),
    ({'pattern': 'let $V = $E'}, 'var $V = $E'),
    ({'kind': 'string'}, '"s"'),
    ({'pattern': '$F($$$A) // tail'}, '$F()'),
    ({'kind': 'array'}, {'template': '[]', 'expandEnd': {'kind': 'number', 'stopBy': 'end'}}),
]


def line_table(data):
    starts = [0]
    for i, b in enumerate(data):
        if b == 10:
            starts.append(i + 1)
    return starts


def pos_to_off(data, starts, pos):
    line, ch = pos['line'], pos['character']
    if line >= len(starts):
        return len(data)
    ls = starts[line]
    le = data.find(b'\n', ls)
    if le == -1:
        le = len(data)
    text = data[ls:le].decode('utf-8', 'replace')
    return ls + len(text[:ch].encode('utf-8'))


def lib_edits(cases):
    f = tempfile.NamedTemporaryFile('w', suffix='.json', delete=False, dir=os.path.join(ROOT, 'work'))
    json.dump({'cases': cases}, f); f.close()
    p = subprocess.run([VMON, 'c08-lib', '--replay', f.name], capture_output=True, text=True, timeout=300)
    os.unlink(f.name)
    if p.returncode != 0:
        raise common.HarnessError('c08-lib failed: ' + p.stderr[-300:])
    return json.loads(p.stdout)['samples']


def one_case(rep, work, k, rule, text, lib):
    d = os.path.join(work, f'p{k}')
    shutil.rmtree(d, ignore_errors=True)
    yaml = json.dumps(rule)
    tree = {'sgconfig.yml': 'ruleDirs: [rules]\ntestConfigs:\n  - testDir: tests\n', 'rules/r.yml': yaml, 'a.js': text,
            'tests/r-test.yml': json.dumps({'id': rule['id'], 'valid': [], 'invalid': [text]})}
    if (k // len(FIXES)) % 2 == 1:
        # a second rule WITHOUT fix whose findings enclose the fixable ones (language server: diagnostics without
        # fix data sit between the fixable ones when fix-all walks them)
        tree['rules/nofix.yml'] = json.dumps({'id': 'nofix', 'language': 'JavaScript', 'rule': {'any': [{'kind': 'expression_statement'}, {'kind': 'lexical_declaration'}, {'kind': 'call_expression'}]}, 'message': 'no fix here'})
    common.write_tree(d, tree)
    data = text.encode('utf-8')
    replay = {'monitor': 'py:c08', 'rule': rule, 'text': text, 'with_nofix_rule': (k // len(FIXES)) % 2 == 1}
    rep['evaluations'] += 1
    if not isinstance(lib, list):
        rep['notes'].append(f'library gave {str(lib)[:80]}')
        return
    L = [(e['start'], e['end'], e['text']) for e in lib]
    nodes = [tuple(e['node']) for e in lib]
    if any((s, e) != n for (s, e, _), n in zip(L, nodes)) or any('\n' in t for _, _, t in L):
        rep['_nt'].add(hashlib.sha1((yaml + text).encode()).hexdigest())
    expanded = isinstance(rule['fix'], dict)

    def lsp_class(got):
        # the known LSP deviation: the server uses the matched node's range and ignores expandStart/expandEnd.
        # Only a mismatch that this explains (every offered range is the unexpanded node range) gets that signature.
        if not expanded:
            return 'plain'
        # diagnostics / quick-fixes: exactly one per match, on the node range; fix-all: the non-overlapping
        # selection of those in document order.  Anything else (edits missing, other ranges) is not that finding.
        offered = sorted((s, e) for s, e, _ in got)
        every = sorted(nodes)
        chosen, last = [], -1
        for s, e in every:
            if s >= last:
                chosen.append((s, e)); last = e
        return 'expanded' if got and offered in (every, chosen) else 'expanded-other'
    # 2. scan --json
    rc, out, err = sg(['scan', '-r', 'rules/r.yml', '--json=stream', 'a.js'], cwd=d)
    try:
        recs = [json.loads(l) for l in out.decode().splitlines() if l.strip()]
    except Exception as ex:
        add_violation(rep, 'C08/json-unreadable', str(ex), replay); return
    J = [(r['replacementOffsets']['start'], r['replacementOffsets']['end'], r['replacement']) for r in recs if 'replacementOffsets' in r]
    if sorted(J) != sorted(L):
        add_violation(rep, f'C08/json-vs-library/{"expanded" if expanded else "plain"}', f'scan --json announces {J[:3]}, the library {L[:3]}', replay)
    # 3. scan -U : the file must be the splice of the accepted announced edits (overlaps dropped, in announcement order)
    rc, outa, err = sg(['scan', '-r', 'rules/r.yml', '--json=stream', '-U', 'a.js'], cwd=d)
    ann = [(r['replacementOffsets']['start'], r['replacementOffsets']['end'], r['replacement']) for r in (json.loads(l) for l in outa.decode().splitlines() if l.strip()) if 'replacementOffsets' in r]
    acc, last = [], -1
    for s, e, t in ann:
        if s < last:
            continue
        acc.append((s, e, t)); last = e
    want = bytearray(); at = 0
    for s, e, t in acc:
        want += data[at:s] + t.encode('utf-8'); at = e
    want += data[at:]
    rc, out, err = sg(['scan', '-r', 'rules/r.yml', '-U', 'a.js'], cwd=d)
    after = open(os.path.join(d, 'a.js'), 'rb').read()
    if after != bytes(want):
        add_violation(rep, f'C08/update-vs-json/{"expanded" if expanded else "plain"}', f'after -U the file is {after[:100]!r}, the announced edits give {bytes(want)[:100]!r}', replay)
    open(os.path.join(d, 'a.js'), 'wb').write(data)
    # 4. test -U snapshot: `fixed` = the text with the FIRST match's edit applied
    rc, out, err = sg(['test', '-U'], cwd=d)
    snap = os.path.join(d, 'tests', '__snapshots__', f'{rule["id"]}-snapshot.yml')
    if L and os.path.exists(snap):
        import_yaml = subprocess.run([common.SG, '--version'], capture_output=True)  # noqa: keep binary warm
        fixed = read_fixed(snap)
        s, e, t = L[0]
        want1 = (data[:s] + t.encode('utf-8') + data[e:]).decode('utf-8')
        if fixed is not None and fixed != want1:
            add_violation(rep, f'C08/snapshot-vs-library/{"expanded" if expanded else "plain"}', f'snapshot records fixed={fixed[:100]!r}, the first library edit gives {want1[:100]!r}', replay)
        count(rep, 'snapshots_compared', 1 if fixed is not None else 0)
    # 5. language server: diagnostics (range + data.fixed), quick-fix and fix-all edits
    l = Lsp(d)
    try:
        l.initialize()
        uri = 'file://' + os.path.join(d, 'a.js')
        l.notify('textDocument/didOpen', {'textDocument': {'uri': uri, 'languageId': 'javascript', 'version': 1, 'text': text}})
        if not l.wait_quiet(settle=0.3):
            rep['inconclusive'] += 1; return
        ds = [x for x in l.diagnostics() if x[1] == uri]
        if not ds:
            if L:
                rep['inconclusive'] += 1
            return
        diags = [x for x in ds[-1][3] if x.get('code') == rule['id']]
        starts = line_table(data)
        D = sorted((pos_to_off(data, starts, x['range']['start']), pos_to_off(data, starts, x['range']['end']), (x.get('data') or {}).get('fixed')) for x in diags)
        if D != sorted(L):
            add_violation(rep, f'C08/lsp-diagnostic-vs-library/{lsp_class(D)}', f'diagnostics offer {D[:3]}, the library edit is {sorted(L)[:3]}', replay)
        r = l.request('textDocument/codeAction', {'textDocument': {'uri': uri}, 'range': {'start': {'line': 0, 'character': 0}, 'end': {'line': 999, 'character': 0}}, 'context': {'diagnostics': diags}})
        if r and r.get('result'):
            Q = []
            for a in r['result']:
                for ed in (a.get('edit', {}).get('changes', {}) or {}).get(uri, []):
                    Q.append((pos_to_off(data, starts, ed['range']['start']), pos_to_off(data, starts, ed['range']['end']), ed['newText']))
            if sorted(Q) != sorted(L):
                add_violation(rep, f'C08/lsp-quickfix-vs-library/{lsp_class(Q)}', f'quick-fixes {sorted(Q)[:3]} vs library {sorted(L)[:3]}', replay)
        r = l.request('textDocument/codeAction', {'textDocument': {'uri': uri}, 'range': {'start': {'line': 0, 'character': 0}, 'end': {'line': 0, 'character': 1}}, 'context': {'diagnostics': [], 'only': ['source.fixAll']}})
        if r and r.get('result'):
            A = []
            for a in r['result']:
                for ed in (a.get('edit', {}).get('changes', {}) or {}).get(uri, []):
                    A.append((pos_to_off(data, starts, ed['range']['start']), pos_to_off(data, starts, ed['range']['end']), ed['newText']))
            # fix-all = the non-overlapping library edits in document order
            want_all, last = [], -1
            for s, e, t in sorted(L):
                if s < last:
                    continue
                want_all.append((s, e, t)); last = e
            if sorted(A) != want_all:
                add_violation(rep, f'C08/lsp-fixall-vs-library/{lsp_class(A)}', f'fix-all {sorted(A)[:3]} vs non-overlapping library edits {want_all[:3]}', replay)
    finally:
        l.close()
    shutil.rmtree(d, ignore_errors=True)


def read_fixed(path):
    """`fixed:` of the single case in a snapshot file (plain, quoted or literal-block YAML scalar)"""
    txt = open(path, encoding='utf-8').read()
    m = re.search(r'^(\s*)(: )?fixed: ?(.*)$', txt, re.M)
    if not m:
        return None
    v = m.group(3)
    if v.startswith('|') or v.startswith('>'):
        rest = txt[m.end() + 1:].split('\n')
        first = next((ln for ln in rest if ln.strip()), '')
        ind = len(first) - len(first.lstrip(' '))
        explicit = re.search(r'\d', v)
        if explicit:
            ind = len(m.group(1)) + (2 if m.group(2) else 0) + int(explicit.group(0))
        lines = []
        for ln in rest:
            if ln.strip() == '':
                lines.append('')
            elif ln.startswith(' ' * ind):
                lines.append(ln[ind:])
            else:
                break
        body = '\n'.join(lines)
        if '+' in v:
            return body
        body = body.rstrip('\n')
        return body if '-' in v else body + '\n'
    if v.startswith('"'):
        try:
            return json.loads(v)
        except Exception:
            return None
    if v.startswith("'"):
        return v[1:-1].replace("''", "'")
    return v


def run(ctx):
    rep = new_report(); rep['_nt'] = set()
    work = ctx.workdir()
    rng = ctx.rng
    n = 2000 if ctx.thorough else 200
    cases = []
    for k in range(n):
        body, fix = FIXES[k % len(FIXES)]
        rule = {'id': 'r', 'language': 'JavaScript', 'rule': body, 'fix': fix, 'message': 'm'}
        text = rng.choice(['', '', '\n\n', '  \n', '\r\n']) + '\n'.join(rng.choice(SRC_LINES) for _ in range(rng.randint(1, 5))) + '\n'
        cases.append((rule, text))
    libs = lib_edits([{'lang': 'JavaScript', 'source': t, 'rule': json.dumps(r)} for r, t in cases])
    import concurrent.futures as cf

    def one(args):
        k, ((rule, text), lib) = args
        sub = new_report(); sub['_nt'] = set()
        one_case(sub, work, k, rule, text, lib)
        return sub
    with cf.ThreadPoolExecutor(max_workers=common.NCPU) as ex:
        subs = list(ex.map(one, enumerate(zip(cases, libs))))
    for sub in subs:
        rep['_nt'] |= sub.pop('_nt')
        rep['evaluations'] += sub['evaluations']; rep['inconclusive'] += sub['inconclusive']
        for kk, v in sub['counters'].items():
            count(rep, kk, v)
        for v in sub['violations']:
            add_violation(rep, v['signature'], v['what'], v['replay'])
        rep['notes'] += [x for x in sub['notes'] if x not in rep['notes']][:5]
    rep['distinct_nontrivial'] = len(rep.pop('_nt'))
    rep['samples'].append({'rule': {'kind': 'number', 'inside': {'kind': 'arguments'}}, 'fix': {'template': '', 'expandEnd': {'regex': '^,$'}}, 'text': 'foo(1, b);\n', 'observations': ['library make_edit', 'scan --json', 'scan -U', 'test -U snapshot', 'lsp diagnostics / quick-fix / fix-all']})
    ctx.cleanup()
    return rep


def replay(ctx, r):
    rep = new_report(); rep['_nt'] = set()
    lib = lib_edits([{'lang': 'JavaScript', 'source': r['text'], 'rule': json.dumps(r['rule'])}])[0]
    one_case(rep, ctx.workdir(), len(FIXES) if r.get('with_nofix_rule') else 0, r['rule'], r['text'], lib)
    rep.pop('_nt')
    ctx.cleanup()
    return rep
