"""C13: results do not depend on map order, hash seeds, repetition or file order."""
import os, json, shutil, hashlib, itertools
import common
from common import sg, new_report, add_violation, count

SOURCES = {
    'src/a.js': 'foo(abc, 12);\nfoo(x, "s");\nfoo(1, 2);\nbar(abc, 12);\n',
    'src/b.js': 'function f() { return foo(longIdentifierName, 3) + foo(y, /re/); }\n',
    'lib/c.js': 'foo(abc,\n    [1, 2, 3]);\nfoo(q, 7)\n',
}


UNUSED_DIRECTIVES = {
    # suppression comments that silence nothing: `scan -U` removes them (fix of the built-in unused-suppression rule)
    'src/e.js': '// ast-grep-ignore\nlet q1 = 1;\n// ast-grep-ignore: nope\nlet q2 = 2;\nlet q3 = 3; // ast-grep-ignore\nlet q4 = 4; // ast-grep-ignore: zz, yy\n// ast-grep-ignore\n// ast-grep-ignore: r9\nlet q5 = 5;\n',
}
SOURCES_EXTRA = {
    'src/d.js': 'x = (((1)));\ny = [1, "two", [3, (4)], foo(5, [6])];\nz = a.b(c, 7)("s", 8);\nfoo((9), ("t"), w);\n',
}
KINDS = ['number', 'string', 'identifier', 'array', 'call_expression', 'arguments', 'member_expression', 'parenthesized_expression']


def random_base(rng):
    """A random utility graph: every reference position (all/any/not, the four relations, nthChild.ofRule,
    bare matches, self-reference through a relation) and a handful of fixable top rules whose kinds come
    from the utilities, several of them matching the same nodes."""
    n = rng.randint(3, 7)
    names = [f'u{i}' for i in range(n)]
    utils = {}
    for i, name in enumerate(names):
        k = rng.choice(KINDS); k2 = rng.choice(KINDS)
        if i == 0:
            utils[name] = {'kind': k}
            continue
        ref = {'matches': rng.choice(names[:i])}
        shape = rng.choice([0, 1, 2, 2, 2, 3, 4, 5, 6, 7, 8, 9, 9])
        if shape == 0:
            u = {'any': [{'kind': k}, ref]}
        elif shape == 1:
            u = {'all': [{'kind': k}, {'has': dict(ref, stopBy='end')}]}
        elif shape == 2:
            u = {'kind': k, 'nthChild': {'position': rng.choice([1, 2, '2n+1']), 'ofRule': {rng.choice(['any', 'all']): [ref, {'kind': k2}] if rng.random() < 0.7 else [ref]}}}
            if rng.random() < 0.6:
                del u['kind']  # the utility's kinds then come from the ofRule alone
        elif shape == 3:
            u = {'kind': k, 'inside': dict(ref, stopBy='end')}
        elif shape == 4:
            u = {'kind': k, 'not': ref}
        elif shape == 5:
            u = {'kind': k, rng.choice(['follows', 'precedes']): dict(ref, stopBy='end')}
        elif shape == 6:
            u = dict(ref)
        elif shape == 7:
            u = {'kind': k, 'has': {'any': [{'kind': k2}, {'matches': name}], 'stopBy': rng.choice(['end', 'neighbor'])}}
        elif shape == 8:
            u = {'any': [{'all': [ref, {'kind': k}]}, {'kind': k2, 'has': dict(ref)}]}
        else:
            u = {'kind': k, 'has': {'nthChild': {'position': 1, 'ofRule': ref}, 'stopBy': 'end'}}
        utils[name] = u
    # some utilities become global ones (they may only reference other globals, so take a prefix)
    n_glob = rng.choice([0, 0, 1, 2, 2, 3])
    glob_names = names[:n_glob]
    globals_ = [{'id': g, 'language': 'JavaScript', 'rule': utils.pop(g)} for g in glob_names]
    if len(globals_) >= 2 and rng.random() < 0.7:
        # a global utility with a local utility of its own that refers to another global one
        g = globals_[1]
        g['utils'] = {'L0': {'matches': globals_[0]['id']}}
        g['rule'] = {'any': [{'matches': 'L0'}, g['rule']]}
    rules = []
    for i in range(rng.randint(2, 4)):
        target = rng.choice(names[len(names) // 2:])
        body = {'matches': target}
        if rng.random() < 0.4:
            body = {'matches': target, 'inside': {'kind': rng.choice(['program', 'arguments', 'array', 'expression_statement']), 'stopBy': 'end'}}
        r = {'id': f'r{i}', 'language': 'JavaScript', 'rule': body, 'utils': json.loads(json.dumps(utils)), 'message': f'r{i} hit'}
        if rng.random() < 0.7:
            r['fix'] = f'R{i}'
        if not r['utils']:
            del r['utils']
        rules.append(r)
    if rng.random() < 0.6:
        # constraints that bind further variables: the outcome must not depend on which constraint runs first
        x_alt = rng.choice([{'all': [{'pattern': '$X'}, {'regex': '^[a-z]+$'}]}, {'pattern': '$X', 'kind': rng.choice(['identifier', 'number'])}, {'pattern': '($X)'}])
        cons = {'A': {'any': [x_alt, {'pattern': '$Y'}]}, 'B': {'pattern': '$X'}}
        if rng.random() < 0.5:
            cons = {'B': cons['A'], 'A': cons['B']}
        if rng.random() < 0.3:
            cons['F'] = {'regex': '^(foo|bar)$'}
        rules.append({'id': 'rc', 'language': 'JavaScript', 'rule': {'pattern': '$F($A, $B)'}, 'constraints': cons, 'message': 'rc $A $B'})
    return rules, globals_


def permuted(d, order):
    keys = list(d)
    return {keys[i]: d[keys[i]] for i in order}


def base_rules(rng):
    utils = {
        'u1': {'kind': 'number'},
        'u2': {'any': [{'matches': 'u1'}, {'kind': 'string'}]},
        'u3': {'all': [{'matches': 'u2'}, {'not': {'matches': 'g1'}}]},
        'u4': {'has': {'matches': 'u1', 'stopBy': 'end'}},
    }
    constraints = {'A': {'kind': 'identifier'}, 'B': {'any': [{'matches': 'u2'}, {'matches': 'u4'}]}}
    transform = {
        'T1': {'substring': {'source': '$A', 'startChar': 0, 'endChar': 3}},
        'T2': {'replace': {'source': '$T1', 'replace': '[ab]', 'by': 'z'}},
        'T3': {'convert': {'source': '$T2', 'toCase': 'upperCase'}},
        'RW': {'rewrite': {'source': '$B', 'rewriters': ['rw1', 'rw2'], 'joinBy': '+'}},
    }
    rewriters = [
        {'id': 'rw1', 'rule': {'kind': 'number'}, 'fix': 'N'},
        {'id': 'rw2', 'rule': {'kind': 'string'}, 'fix': 'S'},
    ]
    r1 = {'id': 'r1', 'language': 'JavaScript', 'rule': {'pattern': 'foo($A, $B)', 'has': {'matches': 'u3', 'stopBy': 'end'}},
          'utils': utils, 'constraints': constraints, 'transform': transform, 'rewriters': rewriters,
          'fix': 'bar($T3, $RW, $A)', 'message': 'found $A as $T2'}
    r2 = {'id': 'r2', 'language': 'JavaScript', 'rule': {'pattern': '$F($$$ARGS)', 'not': {'has': {'matches': 'g1', 'stopBy': 'end'}}},
          'constraints': {'F': {'regex': '^(foo|bar)$'}},
          'transform': {'N1': {'convert': {'source': '$F', 'toCase': 'capitalize'}}, 'N2': {'substring': {'source': '$N1', 'endChar': 2}}},
          'fix': '$N2($$$ARGS)', 'severity': 'warning'}
    r3 = {'id': 'r3', 'language': 'JavaScript', 'rule': {'kind': 'number', 'inside': {'kind': 'arguments', 'stopBy': 'end'}, 'nthChild': {'position': 1, 'reverse': True}}, 'message': 'last number'}
    g1 = {'id': 'g1', 'language': 'JavaScript', 'rule': {'kind': 'regex'}}
    g2 = {'id': 'g2', 'language': 'JavaScript', 'rule': {'any': [{'matches': 'g1'}, {'kind': 'array'}]}}
    return [r1, r2, r3], [g1, g2]


def variant(rules, rng):
    out = []
    for r in rules:
        r = json.loads(json.dumps(r))
        for key in ('utils', 'constraints', 'transform'):
            if key in r:
                order = list(range(len(r[key]))); rng.shuffle(order)
                r[key] = permuted(r[key], order)
        if 'rewriters' in r:
            rng.shuffle(r['rewriters'])
        # top-level key order as well
        order = list(range(len(r))); rng.shuffle(order)
        out.append(permuted(r, order))
    return out


def write_project(d, rules, globals_, rng, layout, fixed=True):
    tree = dict(SOURCES)
    tree.update(UNUSED_DIRECTIVES)
    if not fixed:
        tree.update(SOURCES_EXTRA)
    tree['sgconfig.yml'] = 'ruleDirs: [rules]\nutilDirs: [utils]\ntestConfigs:\n  - testDir: tests\n'
    names = [f'{rng.choice("abcxyz")}{i}-{r["id"]}.yml' for i, r in enumerate(rules)] if layout else [f'{r["id"]}.yml' for r in rules]
    if layout == 2:
        # all rules in one multi-document file, in shuffled order
        docs = [json.dumps(r) for r in rules]; rng.shuffle(docs)
        tree['rules/all.yml'] = '\n---\n'.join(docs) + '\n'
    else:
        for n, r in zip(names, rules):
            tree[f'rules/{n}'] = json.dumps(r)
    for g in globals_:
        tree[f'utils/{g["id"]}.yml'] = json.dumps(g)
    tree['utils/gx.yml'] = json.dumps({'id': 'gx', 'language': 'JavaScript', 'rule': {'kind': 'regex'}})
    if fixed:
      tree['tests/r1-test.yml'] = 'id: r1\nvalid:\n  - bar(1, 2)\n  - foo(1)\ninvalid:\n  - foo(abc, 12)\n  - "foo(x, \\"s\\")"\n'
      tree['tests/r2-test.yml'] = 'id: r2\nvalid:\n  - baz(1)\ninvalid:\n  - foo(1, 2)\n  - bar(q)\n'
    common.write_tree(d, tree)
    return tree


def canon(rec):
    r = dict(rec)
    r['file'] = r['file'][2:] if r['file'].startswith('./') else r['file']
    return json.dumps(r, sort_keys=True, ensure_ascii=False)


def read_orders(log, seen):
    if os.path.exists(log):
        for line in open(log, encoding='utf-8', errors='replace'):
            if '"order"' in line:
                try:
                    e = json.loads(line)
                    seen.setdefault(e['site'], set()).add(e['keys'])
                except Exception:
                    pass
        os.unlink(log)


def run_project(ctx, work, k):
    import random
    rng = random.Random(f'C13-{ctx.seed}-{k}')
    rep = new_report(); rep['_nt'] = set()
    fixed = k % 8 == 0
    rules, globals_ = base_rules(rng) if fixed else random_base(rng)
    n_variants = (20 if ctx.thorough else 8) if fixed else (8 if ctx.thorough else 4)
    n_launch = 12 if ctx.thorough else 6
    reference = None
    upd_ref = None
    snap_ref = None
    orders = {}
    for v in range(n_variants):
        vr = rules if v == 0 else variant(rules, rng)
        d = os.path.join(work, f'p{k}v{v}')
        shutil.rmtree(d, ignore_errors=True)
        tree = write_project(d, vr, globals_, rng, v % 3, fixed)
        replay = {'monitor': 'py:c13', 'tree': tree}
        for launch in range(n_launch):
            j = 1 if launch % 2 == 0 else 8
            log = os.path.join(work, f'log-{k}-{v}-{launch}.jsonl')
            rc, out, err = sg(['scan', '--json=stream', '-j', str(j)], cwd=d, env={'AST_GREP_VERIF_LOG': log})
            rep['evaluations'] += 1
            read_orders(log, orders)
            try:
                got = sorted(canon(json.loads(l)) for l in out.decode('utf-8').splitlines() if l.strip())
            except Exception as ex:
                add_violation(rep, 'C13/output-unreadable', f'variant {v} launch {launch}: {ex}; {err[-200:]!r}', replay); continue
            # a configuration is accepted or rejected, never "sometimes": the verdict is part of the result
            got.append(f'exit-class={"error" if rc not in (0, 1) else "ok"}')
            count(rep, 'launches_rejected' if rc not in (0, 1) else 'launches_accepted')
            if reference is None:
                reference = got
                if not got:
                    rep['notes'].append('reference run produced no records')
            elif got != reference:
                diff = [x for x in got if x not in reference][:2] + [x for x in reference if x not in got][:2]
                kind = 'same-documents-new-process' if v == 0 else 'permuted-keys-or-files'
                add_violation(rep, f'C13/findings-differ/{kind}', f'variant {v} launch {launch} (-j {j}): {len(got)} records vs {len(reference)}; e.g. {str(diff)[:500]}', replay)
        # applying the fixes gives the same files whatever the layout (several rules fix the same node)
        du = d + '-u'
        shutil.rmtree(du, ignore_errors=True)
        shutil.copytree(d, du)
        rcu, outu, erru = sg(['scan', '-U', '-j', str(1 if v % 2 else 8)], cwd=du)
        rep['evaluations'] += 1
        upd = {p: open(os.path.join(du, p), encoding='utf-8').read() for p in tree if p.startswith(('src/', 'lib/'))}
        shutil.rmtree(du, ignore_errors=True)
        if upd_ref is None:
            upd_ref = upd
            count(rep, 'files_changed_by_update', sum(1 for p in upd if upd[p] != tree[p]))
        elif upd != upd_ref:
            bad = [p for p in upd if upd[p] != upd_ref[p]][:2]
            add_violation(rep, 'C13/update-differs/permuted-keys-or-files', f'variant {v}: `scan -U` leaves different sources than variant 0: {[(p, upd[p][:80], upd_ref[p][:80]) for p in bad]}', replay)
        # snapshots: test -U then test
        if fixed and v % 2 == 0:
            rc, out, err = sg(['test', '-U'], cwd=d)
            rc2, out2, err2 = sg(['test'], cwd=d)
            rep['evaluations'] += 2
            if rc2 != 0:
                add_violation(rep, 'C13/test-after-update-fails', f'variant {v}: `test` exits {rc2} right after `test -U`: {out2.decode("utf-8", "replace")[-300:]!r}', replay)
            snaps = {}
            sd = os.path.join(d, 'tests', '__snapshots__')
            if os.path.isdir(sd):
                for f in sorted(os.listdir(sd)):
                    snaps[f] = hashlib.sha256(open(os.path.join(sd, f), 'rb').read()).hexdigest()
            if snap_ref is None:
                snap_ref = snaps
            elif snaps != snap_ref:
                add_violation(rep, 'C13/snapshots-differ', f'variant {v}: snapshot files differ from the first variant: {sorted(set(snaps.items()) ^ set(snap_ref.items()))[:4]}', replay)
            # a second `test -U` must leave them byte-identical
            sg(['test', '-U'], cwd=d)
            snaps2 = {f: hashlib.sha256(open(os.path.join(sd, f), 'rb').read()).hexdigest() for f in sorted(os.listdir(sd))} if os.path.isdir(sd) else {}
            if snaps2 != snaps:
                add_violation(rep, 'C13/snapshots-unstable', f'variant {v}: repeating `test -U` rewrote snapshot files', replay)
        rep['_nt'].add(hashlib.sha1(json.dumps(tree, sort_keys=True).encode()).hexdigest())
        shutil.rmtree(d, ignore_errors=True)
    for site, ks in orders.items():
        count(rep, f'distinct_orders.{site}', len(ks))
    count(rep, 'records_in_reference', len(reference or []))
    return rep


def run(ctx):
    rep = new_report(); rep['_nt'] = set()
    work = ctx.workdir()
    import concurrent.futures as cf
    n = 480 if ctx.thorough else 64
    with cf.ThreadPoolExecutor(max_workers=common.NCPU) as ex:
        subs = list(ex.map(lambda k: run_project(ctx, work, k), range(n)))
    nt = rep.pop('_nt')
    for sub in subs:
        nt |= sub.pop('_nt')
        rep['evaluations'] += sub['evaluations']
        for kk, v in sub['counters'].items():
            count(rep, kk, v)
        for v in sub['violations']:
            add_violation(rep, v['signature'], v['what'], v['replay'])
        rep['notes'] += [x for x in sub['notes'] if x not in rep['notes']]
    rep['distinct_nontrivial'] = len(nt)
    rep['samples'].append({'rule': 'r1: pattern foo($A, $B) with utils u1..u4 (+ global g1, g2), 2 constraints, transform chain T1->T2->T3 + rewrite RW, 2 rewriters', 'variants': 'keys of utils/constraints/transform permuted, rewriters shuffled, rule files renamed / merged into one multi-document file'})
    ctx.cleanup()
    return rep


def replay(ctx, r):
    rep = new_report()
    d = os.path.join(ctx.workdir(), 'replay')
    common.write_tree(d, r['tree'])
    outs = set()
    for i in range(12):
        rc, out, err = sg(['scan', '--json=stream', '-j', str(1 + 7 * (i % 2))], cwd=d)
        rep['evaluations'] += 1
        try:
            outs.add(json.dumps(sorted(canon(json.loads(l)) for l in out.decode().splitlines() if l.strip())))
        except Exception:
            pass
    if len(outs) > 1:
        add_violation(rep, 'C13/findings-differ/same-documents-new-process', f'{len(outs)} different results in 12 launches', r)
    ctx.cleanup()
    return rep
