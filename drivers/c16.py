"""C16: everything the CLI prints about a match agrees with the bytes on disk. Oracle: the file bytes only."""
import os, json, re, shutil, hashlib
import common
from common import sg, new_report, add_violation, count

WORDS = ['foo', 'bar', 'baz']
ARGS = ['1', 'x', '"é"', '"日本"', "'🦀'", 'a + b', 'g(1)', '[1, 2]', '"ß" + x']


def gen_js(rng, flavour):
    """a JS file with several `foo(...)` calls; flavour selects the hostile feature"""
    lines = []
    n = rng.randint(2, 9)
    for i in range(n):
        w = rng.choice(WORDS)
        args = ', '.join(rng.choice(ARGS) for _ in range(rng.randint(0, 3)))
        pre = rng.choice(['', '', 'let é = ', '/* 🦀 */ ', '  ', '\t', 'x = "日本"; '])
        post = rng.choice([';', '', '; // é', ';  '])
        r = rng.random()
        if r < 0.2:
            # a call spanning lines, sometimes with an empty line inside
            lines.append(f'{pre}{w}(')
            if rng.random() < 0.4:
                lines.append('')
            lines.append(f'  {args or "1"},')
            lines.append(f'  2){post}')
        elif r < 0.3:
            # empty lines around code: context and merged groups then contain blank lines
            lines.append('')
            lines.append(f'{pre}{w}({args}){post}')
            if rng.random() < 0.5:
                lines.append('')
        else:
            lines.append(f'{pre}{w}({args}){post}')
    if flavour == 'first':
        lines.insert(0, 'foo(0)')
    if flavour == 'long':
        lines.insert(rng.randint(0, len(lines)), 'var s = "' + 'é' * 60000 + 'x' * 40000 + '"; foo("end of long line")')
    eol = '\r\n' if flavour == 'crlf' else '\n'
    text = eol.join(lines)
    if flavour == 'bom':
        text = '\ufeff' + text        # a byte order mark: offsets and columns still count from the first byte of the file
    if flavour == 'last':
        text += eol + 'foo(9)'          # match at EOF, no trailing newline
    elif flavour != 'nonl':
        text += eol
    return text


def char_col(data, off):
    ls = data.rfind(b'\n', 0, off) + 1
    return data[:off].count(b'\n'), len(data[ls:off].decode('utf-8', 'replace'))


def check_range(rep, data, rng_, text, what, replay, tag):
    s, e = rng_['byteOffset']['start'], rng_['byteOffset']['end']
    bad = []
    if not (0 <= s <= e <= len(data)):
        bad.append(('offsets-outside-file', f'{s}..{e} of {len(data)}'))
    else:
        try:
            got = data[s:e].decode('utf-8')
        except UnicodeDecodeError:
            got = None
            bad.append(('offsets-split-character', f'{s}..{e}'))
        if got is not None and text is not None and got != text:
            bad.append(('text', f'text {text[:60]!r} but bytes are {got[:60]!r}'))
        sl, sc = char_col(data, s); el, ec = char_col(data, e)
        if (rng_['start']['line'], rng_['start']['column']) != (sl, sc):
            bad.append(('start-position', f"printed {rng_['start']} but bytes say line {sl} column {sc}"))
        if (rng_['end']['line'], rng_['end']['column']) != (el, ec):
            bad.append(('end-position', f"printed {rng_['end']} but bytes say line {el} column {ec}"))
    for k, w in bad:
        add_violation(rep, f'C16/{tag}/{k}', f'{what}: {w}', replay)
    return not bad


def check_record(rep, r, files, before, after, what, replay):
    path = r['file'][2:] if r['file'].startswith('./') else r['file']
    if path not in files:
        add_violation(rep, 'C16/json/unknown-file', f'{what}: record for {r["file"]!r}', replay); return False
    data = files[path]
    ok = check_range(rep, data, r['range'], r['text'], what, replay, 'json')
    s, e = r['range']['byteOffset']['start'], r['range']['byteOffset']['end']
    if ok:
        # lines: whole lines covering the match plus the requested context
        sl = data[:s].count(b'\n'); el = data[:e].count(b'\n')
        starts = [0] + [i + 1 for i, b in enumerate(data) if b == 10] if len(data) < 300000 else None
        if starts is None:
            starts = [0]
            pos = data.find(b'\n')
            while pos != -1:
                starts.append(pos + 1); pos = data.find(b'\n', pos + 1)
        nlines = len(starts)
        first = max(0, sl - before); last = min(nlines - 1, el + after)
        a = starts[first]
        b = data.find(b'\n', starts[last])
        if b == -1:
            b = len(data)
        want_lines = data[a:b].decode('utf-8', 'replace')
        if r['lines'] != want_lines:
            add_violation(rep, f'C16/json/lines/context={before},{after}', f'{what}: lines {r["lines"][:80]!r} but the file says {want_lines[:80]!r}', replay); ok = False
        lead = len(data[a:s].decode('utf-8', 'replace')); trail = len(data[e:b].decode('utf-8', 'replace'))
        cc = r['charCount']
        if (cc['leading'], cc['trailing']) != (lead, trail):
            add_violation(rep, f'C16/json/charCount/context={before},{after}', f'{what}: charCount {cc} but the file says leading={lead} trailing={trail}', replay); ok = False
    mv = r.get('metaVariables') or {}
    for name, m in (mv.get('single') or {}).items():
        ok &= check_range(rep, data, m['range'], m['text'], f'{what} ${name}', replay, 'metavar')
    for name, ms in (mv.get('multi') or {}).items():
        for m in ms:
            ok &= check_range(rep, data, m['range'], m['text'], f'{what} $$${name}', replay, 'metavar')
    if 'replacementOffsets' in r:
        ro = r['replacementOffsets']
        good = 0 <= ro['start'] <= ro['end'] <= len(data)
        if good:
            try:
                data[ro['start']:ro['end']].decode('utf-8')
            except UnicodeDecodeError:
                good = False
        if not good:
            add_violation(rep, 'C16/json/replacementOffsets', f'{what}: {ro} is not a character-aligned range of the {len(data)}-byte file', replay); ok = False
        if 'replacement' not in r:
            add_violation(rep, 'C16/json/replacement-missing', f'{what}: offsets without replacement', replay); ok = False
    return ok


def parse_output(style, out):
    txt = out.decode('utf-8')
    if style == 'stream':
        return [json.loads(l) for l in txt.splitlines() if l.strip()]
    v = json.loads(txt)
    if not isinstance(v, list):
        raise ValueError('not a JSON array')
    return v


def nontrivial(r, data, before, after):
    s, e = r['range']['byteOffset']['start'], r['range']['byteOffset']['end']
    ls = data.rfind(b'\n', 0, s) + 1
    return (any(b >= 0x80 for b in data[ls:s]) or b'\n' in data[s:e] or s == 0 or e == len(data) or before or after)


def run_project(rep, ctx, work, k, rng):
    flavours = ['plain', 'crlf', 'nonl', 'first', 'last', 'long', 'plain', 'crlf', 'bom']
    nfiles = rng.choice([0, 1, 2, 5, 9])
    files = {}
    for i in range(nfiles):
        fl = flavours[(k + i) % len(flavours)]
        files[f'{"sub/" if i % 3 == 2 else ""}f{i}_{fl}.js'] = gen_js(rng, fl).encode('utf-8')
    files['other.txt'] = b'foo(1)\n'
    d = os.path.join(work, f'p{k}')
    common.write_tree(d, files)
    rewrite = rng.random() < 0.4
    for style in (['pretty', 'stream', 'compact', None] if ctx.thorough else [rng.choice(['pretty', 'stream', 'compact', None]), 'stream']):
        ctxopt = rng.choice([(0, 0), (1, 0), (0, 2), (2, 2), (5, 5), (1, 1)])
        args = ['run', '-p', rng.choice(['foo($$$A)', 'foo($A)', '$F($$$A)', 'foo($A, $B)']), '-l', 'js']
        if rewrite:
            args += ['--rewrite', 'qux($$$A)' if '$$$A' in args[2] else 'qux($A)']
        args += ['--json' if style is None else f'--json={style}']
        b, a = ctxopt
        if b == a and b:
            args += ['-C', str(b)]
        else:
            if b: args += ['-B', str(b)]
            if a: args += ['-A', str(a)]
        args += ['.']
        rc, out, err = sg(args, cwd=d)
        replay = {'monitor': 'py:c16', 'files': {p: v.decode('utf-8') for p, v in files.items() if len(v) < 20000}, 'argv': args}
        what = ' '.join(args[:8])
        rep['evaluations'] += 1
        try:
            recs = parse_output(style or 'pretty', out)
        except Exception as ex:
            add_violation(rep, f'C16/json/malformed-output/style={style or "default"}/files={min(nfiles, 2)}', f'{what}: stdout is not well-formed ({ex}); first bytes {out[:120]!r}', replay)
            continue
        count(rep, 'records', len(recs))
        for r in recs:
            ok = check_record(rep, r, files, b, a, what, replay)
            p = r['file'][2:] if r['file'].startswith('./') else r['file']
            if p in files and nontrivial(r, files[p], b, a):
                rep['_nt'].add(hashlib.sha1(json.dumps([p, r['range']['byteOffset'], args], sort_keys=True).encode() + files[p][:2000]).hexdigest())
        if rewrite and any('replacementOffsets' not in r for r in recs):
            add_violation(rep, 'C16/json/replacementOffsets-missing', f'{what}: --rewrite given but a record lacks replacementOffsets', replay)
    # scan with a rule and a fix
    rule = 'id: r\nlanguage: JavaScript\nrule: {pattern: "foo($$$A)"}\nfix: "qux($$$A)"\nmessage: "found $$$A"\n'
    open(os.path.join(d, 'rule.yml'), 'w').write(rule)
    args = ['scan', '-r', 'rule.yml', '--json=stream', '.']
    rc, out, err = sg(args, cwd=d)
    rep['evaluations'] += 1
    replay = {'monitor': 'py:c16', 'files': {p: v.decode('utf-8') for p, v in files.items() if len(v) < 20000}, 'argv': args, 'rule': rule}
    try:
        for r in parse_output('stream', out):
            check_record(rep, r, files, 0, 0, 'scan -r rule.yml', replay)
            count(rep, 'records', 1)
    except Exception as ex:
        add_violation(rep, 'C16/json/malformed-output/scan', f'scan: stdout is not well-formed ({ex})', replay)
    # plain text report
    b, a = rng.choice([(0, 0), (1, 1), (2, 0), (0, 3)])
    args = ['run', '-p', 'foo($$$A)', '-l', 'js', '--color', 'never', '--heading', 'never']
    if b: args += ['-B', str(b)]
    if a: args += ['-A', str(a)]
    args += ['.']
    rc, out, err = sg(args, cwd=d)
    rep['evaluations'] += 1
    replay = {'monitor': 'py:c16', 'files': {p: v.decode('utf-8') for p, v in files.items() if len(v) < 20000}, 'argv': args}
    check_plain(rep, out, files, ' '.join(args), replay)
    shutil.rmtree(d, ignore_errors=True)


LINE = re.compile(r'^(?:\./)?([^:\n]+\.js):(\d+):(.*)$')


def check_plain(rep, out, files, what, replay):
    txt = out.decode('utf-8', 'replace')
    n = 0
    for line in txt.split('\n'):
        m = LINE.match(line.rstrip('\r'))
        if not m:
            continue
        path, no, text = m.group(1), int(m.group(2)), m.group(3)
        if path not in files:
            add_violation(rep, 'C16/plain/unknown-file', f'{what}: {line[:100]!r}', replay); continue
        flines = files[path].decode('utf-8', 'replace').split('\n')
        n += 1
        if not (1 <= no <= len(flines)) or flines[no - 1].rstrip('\r') != text.rstrip('\r'):
            real = flines[no - 1][:80] if 1 <= no <= len(flines) else '<no such line>'
            add_violation(rep, 'C16/plain/line-text', f'{what}: printed {path}:{no}:{text[:80]!r} but line {no} is {real!r}', replay)
    count(rep, 'plain_lines', n)
    if n:
        rep['_nt'].add(hashlib.sha1((what + txt[:500]).encode()).hexdigest())


def run(ctx):
    rep = new_report(); rep['_nt'] = set()
    work = ctx.workdir()
    n = 2500 if ctx.thorough else 160
    for k in range(n):
        run_project(rep, ctx, work, k, ctx.rng)
    rep['distinct_nontrivial'] = len(rep.pop('_nt'))
    rep['samples'].append({'argv': ['run', '-p', 'foo($$$A)', '-l', 'js', '--json=stream', '-C', '2', '.'], 'file_flavours': ['multi-byte', 'CRLF', '100k-character line', 'match at offset 0', 'match at EOF without newline']})
    ctx.cleanup()
    return rep


def replay(ctx, r):
    rep = new_report(); rep['_nt'] = set()
    work = ctx.workdir()
    d = os.path.join(work, 'replay')
    files = {p: v.encode('utf-8') for p, v in r['files'].items()}
    common.write_tree(d, files)
    if r.get('rule'):
        open(os.path.join(d, 'rule.yml'), 'w').write(r['rule'])
    rc, out, err = sg(r['argv'], cwd=d)
    args = r['argv']
    rep['evaluations'] = 1
    js = [a for a in args if a.startswith('--json')]
    if js:
        style = js[0].split('=')[1] if '=' in js[0] else 'pretty'
        b = a = 0
        for i, x in enumerate(args):
            if x == '-C': b = a = int(args[i + 1])
            if x == '-B': b = int(args[i + 1])
            if x == '-A': a = int(args[i + 1])
        try:
            for rec in parse_output(style, out):
                check_record(rep, rec, files, b, a, 'replay', r)
        except Exception as ex:
            add_violation(rep, 'C16/json/malformed-output/replay', str(ex), r)
    else:
        check_plain(rep, out, files, 'replay', r)
    rep.pop('_nt')
    ctx.cleanup()
    return rep
