"""Sanitizer passes (thorough tier): the same monitors, run inside an AddressSanitizer build.

The harness is rebuilt with `-Zsanitizer=address` (Rust) and `-fsanitize=address` (the C of
tree-sitter and every grammar), then each monitor runs once per language in its own process, so a
report in one grammar's scanner does not hide the other languages.  Oracle violations found by the
monitor inside the sanitizer build are ordinary violations of the property.  A sanitizer report is
classified by where the faulting access is:

 * in ast-grep (`/repo/crates/...`), in Rust std/alloc reached from it, or inside the tree-sitter
   runtime (which ast-grep drives through `unsafe`, lifetime-erased nodes and `Tree::edit`):
   a violation `Cxx/asan/<error>/<first ast-grep frame>` -- the executions the oracle judged are
   no longer trustworthy and the memory error is reachable through ast-grep's own calls;
 * in a grammar's external scanner (`tree-sitter-<lang>-*/src/scanner.c*`): recorded in the evidence
   as a third-party observation, never a verdict on ast-grep's properties (the scanner only sees the
   lexer and its own state; nothing ast-grep does changes what it reads).

A failed sanitizer build, a timeout or an unparseable log is `inconclusive`, never a violation.
"""
import os, re, json, subprocess, tempfile, glob, concurrent.futures as cf
import common
from common import ROOT, REPO, TARGET, NCPU

ASAN_DIR = os.path.join(TARGET, 'vmon-asan')
VMON_ASAN = os.path.join(ASAN_DIR, 'x86_64-unknown-linux-gnu', 'release', 'vmon')
_built = {}
NOT_PER_LANGUAGE = {'c12'}


def build_asan():
    if 'asan' in _built:
        return _built['asan']
    env = dict(os.environ)
    env.update({'CARGO_NET_OFFLINE': 'true',
                'RUSTFLAGS': '-Zsanitizer=address -Cforce-frame-pointers=yes',
                'CC': 'clang', 'CXX': 'clang++',
                'CFLAGS': '-fsanitize=address -fno-omit-frame-pointer',
                'CXXFLAGS': '-fsanitize=address -fno-omit-frame-pointer'})
    try:
        p = subprocess.run(['cargo', '+nightly', 'build', '--release', '--offline', '--target',
                            'x86_64-unknown-linux-gnu', '--target-dir', ASAN_DIR],
                           cwd=os.path.join(ROOT, 'harness'), env=env, stdout=subprocess.PIPE,
                           stderr=subprocess.STDOUT, text=True, timeout=3600)
        ok = p.returncode == 0 and os.path.exists(VMON_ASAN)
        msg = '' if ok else '\n'.join(p.stdout.splitlines()[-15:])
    except Exception as e:  # toolchain missing, timeout
        ok, msg = False, str(e)
    _built['asan'] = (ok, msg)
    return ok, msg


FRAME = re.compile(r'^\s*#(\d+) 0x[0-9a-f]+ in (.+?) (/\S+?)(?::(\d+))?(?::\d+)?$')


def parse_asan(text):
    """-> list of reports {error, frames:[(fn, path, line)]} (only the faulting stack of each)."""
    reps = []
    cur = None
    in_first_stack = False
    for ln in text.splitlines():
        m = re.search(r'ERROR: (AddressSanitizer|LeakSanitizer): ([\w-]+)', ln)
        if m:
            cur = {'error': m.group(2), 'frames': [], 'summary': ''}
            reps.append(cur)
            in_first_stack = True
            continue
        if cur is None:
            continue
        if ln.startswith('SUMMARY:'):
            cur['summary'] = ln.strip()
            cur = None
            continue
        fm = FRAME.match(ln)
        if fm and in_first_stack:
            cur['frames'].append((fm.group(2), fm.group(3), fm.group(4) or ''))
        elif in_first_stack and cur['frames'] and not ln.strip():
            in_first_stack = False
    return reps


def classify(report):
    """('third-party', crate, fn) | ('ast-grep', site) | ('unknown', '')"""
    frames = report['frames']
    # skip sanitizer runtime / libc interceptors
    real = [f for f in frames if '/compiler-rt/' not in f[1] and 'sanitizer_common' not in f[1]]
    if not real:
        return ('unknown', '', '')
    fn, path, _ = real[0]
    m = re.search(r'/(tree-sitter-[a-z0-9-]+?)-\d[^/]*/src/(scanner\.[a-z]+|.*scanner.*)$', path)
    if m and m.group(1) != 'tree-sitter':
        return ('third-party', m.group(1), fn)
    site = ''
    for f in real:
        if f[1].startswith(REPO + '/crates/'):
            site = re.sub(r'::\{closure#\d+\}|<|>', '', f[0])[:80]
            break
    return ('ast-grep', site or fn[:80], fn)


def _one(monitor, ctx, lang, shard, nshards, timeout):
    work = os.path.join(ROOT, 'work')
    os.makedirs(work, exist_ok=True)
    out = tempfile.NamedTemporaryFile(prefix='asan-', suffix='.json', delete=False, dir=work)
    out.close()
    logbase = out.name + '.log'
    env = dict(os.environ)
    env['VERIF_LANGS'] = lang
    env['ASAN_OPTIONS'] = f'halt_on_error=1:abort_on_error=0:exitcode=86:detect_leaks=0:log_path={logbase}'
    args = [VMON_ASAN, monitor, '--seed', str(ctx.seed), '--tier', 'quick', '--shard', f'{shard}/{nshards}',
            '--out', out.name]
    res = {'lang': lang, 'args': args[1:], 'rc': None, 'report': None, 'asan': [], 'stderr': ''}
    try:
        p = subprocess.run(args, env=env, stdout=subprocess.PIPE, stderr=subprocess.PIPE, text=True, timeout=timeout)
        res['rc'] = p.returncode
        res['stderr'] = p.stderr[-1500:]
        if p.returncode == 0:
            res['report'] = json.load(open(out.name))
    except subprocess.TimeoutExpired:
        res['rc'] = 'timeout'
    except Exception as e:
        res['rc'] = f'error {e}'
    for lp in glob.glob(logbase + '*'):
        try:
            res['asan'] += parse_asan(open(lp, errors='replace').read())
        except OSError:
            pass
        os.unlink(lp)
    try:
        os.unlink(out.name)
    except OSError:
        pass
    return res


def run(monitor, ctx, nshards=4):
    """One sanitizer pass of `monitor`: one process per language."""
    rep = common.new_report()
    if not ctx.thorough and not os.environ.get('VERIF_SANITIZE'):
        rep['notes'].append(f'asan:{monitor}: sanitizer pass runs in the thorough tier only')
        return [rep]
    ok, msg = build_asan()
    if not ok:
        rep['inconclusive'] += 1
        rep['notes'].append(f'asan:{monitor}: sanitizer build unavailable ({msg[-300:]})')
        return [rep]
    langs = sorted(os.listdir(os.path.join(ROOT, 'corpus')))
    timeout = 1800
    with cf.ThreadPoolExecutor(max_workers=NCPU) as ex:
        if monitor in NOT_PER_LANGUAGE:
            # the workload does not iterate the corpus: distinct shards instead of one process per language
            jobs = [ex.submit(_one, monitor, ctx, '', i, NCPU, timeout) for i in range(NCPU)]
        else:
            jobs = [ex.submit(_one, monitor, ctx, l, ctx.seed % nshards, nshards, timeout) for l in langs]
        results = [j.result() for j in jobs]
    reports = [rep]
    for r in results:
        common.count(rep, 'asan_processes')
        if r['report'] is not None:
            sub = r['report']
            common.count(rep, 'asan_evaluations', sub.get('evaluations', 0))
            # the monitor's own verdicts inside the sanitizer build are ordinary verdicts
            reports.append({'evaluations': sub.get('evaluations', 0),
                            'distinct_nontrivial': sub.get('distinct_nontrivial', 0),
                            'violations': sub.get('violations', []),
                            'violation_counts': sub.get('violation_counts', {}),
                            'inconclusive': sub.get('inconclusive', 0)})
        if r['asan']:
            for a in r['asan']:
                kind, where, fn = classify(a)
                if kind == 'third-party':
                    common.count(rep, 'asan_reports_third_party')
                    note = f"asan third-party observation ({r['lang']}): {a['error']} in {where}:{fn}"
                    if note not in rep['notes']:
                        rep['notes'].append(note)
                elif kind == 'ast-grep':
                    common.count(rep, 'asan_reports_ast_grep')
                    sig = f"{ctx.pid}/asan/{a['error']}/{where}"
                    common.add_violation(rep, sig, f"AddressSanitizer {a['error']} under {monitor} ({r['lang']}): {a['summary']}",
                                         {'monitor': 'py:sanitize', 'vmon': monitor, 'lang': r['lang'], 'args': r['args'],
                                          'frames': [list(f) for f in a['frames'][:12]]})
                else:
                    rep['inconclusive'] += 1
                    rep['notes'].append(f"asan:{monitor}:{r['lang']}: unparsed sanitizer report {a['summary'][:120]}")
        elif r['rc'] != 0:
            # died without a sanitizer report: timeout / stack overflow under the fatter frames
            rep['inconclusive'] += 1
            rep['notes'].append(f"asan:{monitor}:{r['lang']}: process ended rc={r['rc']} without a sanitizer report: {r['stderr'][-160:]}")
    return reports


def replay(ctx, replay):
    """Re-run the recorded process and report the same signature if the sanitizer fires again."""
    rep = common.new_report()
    ok, msg = build_asan()
    if not ok:
        rep['inconclusive'] += 1
        return rep
    a = replay['args']
    shard = a[a.index('--shard') + 1].split('/')
    old = ctx.seed
    ctx.seed = int(a[a.index('--seed') + 1])
    r = _one(replay['vmon'], ctx, replay['lang'], int(shard[0]), int(shard[1]), 1800)
    ctx.seed = old
    rep['evaluations'] = 1
    for x in r['asan']:
        kind, where, fn = classify(x)
        if kind == 'ast-grep':
            common.add_violation(rep, f"{ctx.pid}/asan/{x['error']}/{where}", x['summary'], replay)
    return rep


# ---------------------------------------------------------------- ThreadSanitizer (the CLI binary)
TSAN_DIR = os.path.join(TARGET, 'sg-tsan')
SG_TSAN = os.path.join(TSAN_DIR, 'x86_64-unknown-linux-gnu', 'release', 'ast-grep')
# crossbeam's epoch GC and work-stealing deque synchronise with atomic *fences*, which
# ThreadSanitizer does not model (documented limitation); every report there is a tool artefact.
TSAN_SUPP = os.path.join(ROOT, 'drivers', 'tsan.supp')


def build_tsan():
    """ast-grep CLI (hooks on) with -Zsanitizer=thread and an instrumented std (-Zbuild-std)."""
    if 'tsan' in _built:
        return _built['tsan']
    env = dict(os.environ)
    env.update({'CARGO_NET_OFFLINE': 'true',
                'RUSTFLAGS': '-Zsanitizer=thread -Cforce-frame-pointers=yes',
                'CC': 'clang', 'CXX': 'clang++',
                'CFLAGS': '-fsanitize=thread -fno-omit-frame-pointer',
                'CXXFLAGS': '-fsanitize=thread -fno-omit-frame-pointer'})
    try:
        p = subprocess.run(['cargo', '+nightly', 'build', '-Zbuild-std', '-p', 'ast-grep', '--release',
                            '--features', 'verif-hooks', '--config', 'profile.release.lto=false', '--offline',
                            '--target', 'x86_64-unknown-linux-gnu', '--target-dir', TSAN_DIR],
                           cwd=REPO, env=env, stdout=subprocess.PIPE, stderr=subprocess.STDOUT, text=True, timeout=3600)
        ok = p.returncode == 0 and os.path.exists(SG_TSAN)
        msg = '' if ok else '\n'.join(p.stdout.splitlines()[-15:])
    except Exception as e:
        ok, msg = False, str(e)
    _built['tsan'] = (ok, msg)
    return ok, msg


def tsan_env(logbase):
    return {'TSAN_OPTIONS': f'halt_on_error=0:exitcode=0:second_deadlock_stack=1:suppressions={TSAN_SUPP}:log_path={logbase}'}


TFRAME = re.compile(r'^\s*#(\d+) (.+?) (\S+) \(ast-grep\+0x[0-9a-f]+\)')


def parse_tsan(text):
    """-> list of {kind, stacks:[[fn,...],...], summary}"""
    reps, cur, stack = [], None, None
    for ln in text.splitlines():
        m = re.match(r'WARNING: ThreadSanitizer: (.+?) \(pid=', ln)
        if m:
            cur = {'kind': m.group(1), 'stacks': [], 'summary': ''}
            reps.append(cur); stack = None
            continue
        if cur is None:
            continue
        if ln.startswith('SUMMARY:'):
            cur['summary'] = ln.strip(); cur = None
            continue
        fm = TFRAME.match(ln)
        if fm:
            if fm.group(1) == '0' or stack is None:
                stack = []; cur['stacks'].append(stack)
            stack.append(fm.group(2))
        elif not ln.strip():
            stack = None
    return reps


def classify_tsan(report):
    """first ast-grep function on either of the two access stacks (allocation/creation stacks ignored)"""
    sites = []
    for st in report['stacks'][:2]:
        for fn in st:
            if re.search(r'\bast_grep(_core|_config|_language|_lsp|_dynamic)?::', fn):
                sites.append(re.sub(r'::\{closure#\d+\}|<|>', '', fn)[:70])
                break
    return sites


def collect_tsan(logbase):
    out = []
    for lp in glob.glob(logbase + '*'):
        try:
            out += parse_tsan(open(lp, errors='replace').read())
        except OSError:
            pass
        try:
            os.unlink(lp)
        except OSError:
            pass
    return out
