"""Shared plumbing of the orchestrator and the process-boundary drivers."""
import os, sys, json, subprocess, tempfile, shutil, time, random, concurrent.futures as cf

ROOT = os.path.dirname(os.path.dirname(os.path.abspath(__file__)))
REPO = os.environ.get('VERIF_REPO', '/repo')
TARGET = os.path.join(ROOT, 'target')
VMON = os.path.join(TARGET, 'vmon', 'release', 'vmon')
SG = os.path.join(TARGET, 'sg', 'release', 'ast-grep')
NCPU = int(os.environ.get('VERIF_JOBS', os.cpu_count() or 4))
ENV_OFFLINE = {'CARGO_NET_OFFLINE': 'true'}


class HarnessError(Exception):
    pass


class Ctx:
    def __init__(self, pid, tier, seed):
        self.pid, self.tier, self.seed = pid, tier, seed
        self.thorough = tier == 'thorough'
        self.rng = random.Random(f'{pid}-{seed}')
        self.work = None

    def workdir(self):
        if self.work is None:
            base = os.path.join(ROOT, 'work')
            os.makedirs(base, exist_ok=True)
            self.work = tempfile.mkdtemp(prefix=f'{self.pid}-', dir=base)
        return self.work

    def cleanup(self):
        if self.work and not os.environ.get('VERIF_KEEP'):
            shutil.rmtree(self.work, ignore_errors=True)
            self.work = None

    def pick(self, quick, thorough):
        return thorough if self.thorough else quick


def _run_build(cmd, cwd, verbose):
    env = dict(os.environ); env.update(ENV_OFFLINE)
    p = subprocess.run(cmd, cwd=cwd, env=env, stdout=subprocess.PIPE, stderr=subprocess.STDOUT, text=True)
    if p.returncode != 0:
        tail = '\n'.join(p.stdout.splitlines()[-40:])
        return False, tail
    if verbose:
        print(p.stdout.splitlines()[-1] if p.stdout.strip() else 'built')
    return True, ''


def build_all(need_cli=True, verbose=False):
    """Incremental, offline builds from /repo's current working tree."""
    lock = os.path.join(ROOT, 'harness', 'Cargo.lock')
    if not os.path.exists(lock):
        shutil.copy(os.path.join(REPO, 'Cargo.lock'), lock)
    ok, msg = _run_build(['cargo', 'build', '--release', '--offline', '--target-dir', os.path.join(TARGET, 'vmon')],
                         os.path.join(ROOT, 'harness'), verbose)
    if not ok:
        return False, 'harness:\n' + msg
    if need_cli:
        ok, msg = _run_build(['cargo', 'build', '-p', 'ast-grep', '--release', '--features', 'verif-hooks',
                              '--config', 'profile.release.lto=false', '--offline',
                              '--target-dir', os.path.join(TARGET, 'sg')], REPO, verbose)
        if not ok:
            return False, 'cli:\n' + msg
    return True, ''


def _vmon_once(args, timeout):
    out = tempfile.NamedTemporaryFile(prefix='vmon-', suffix='.json', delete=False, dir=os.path.join(ROOT, 'work'))
    out.close()
    try:
        p = subprocess.run([VMON] + args + ['--out', out.name], stdout=subprocess.PIPE, stderr=subprocess.PIPE,
                           text=True, timeout=timeout)
        if p.returncode != 0:
            return {'died': True, 'returncode': p.returncode, 'stderr': p.stderr[-2000:], 'args': args}
        return json.load(open(out.name))
    except subprocess.TimeoutExpired:
        return {'died': True, 'returncode': 'timeout', 'stderr': '', 'args': args}
    finally:
        try:
            os.unlink(out.name)
        except OSError:
            pass


def _vmon_once_env(args, timeout, env_extra):
    out = tempfile.NamedTemporaryFile(prefix='vmon-', suffix='.json', delete=False, dir=os.path.join(ROOT, 'work'))
    out.close()
    env = dict(os.environ); env.update(env_extra)
    try:
        p = subprocess.run([VMON] + args + ['--out', out.name], stdout=subprocess.PIPE, stderr=subprocess.PIPE, text=True, timeout=timeout, env=env)
        if p.returncode != 0:
            return {'died': True, 'returncode': p.returncode, 'stderr': p.stderr[-2000:], 'args': args}
        return json.load(open(out.name))
    except subprocess.TimeoutExpired:
        return {'died': True, 'returncode': 'timeout', 'stderr': '', 'args': args}
    finally:
        try:
            os.unlink(out.name)
        except OSError:
            pass


def _third_party_scanner_abort(r):
    """an assertion of a grammar's external scanner (C code of a tree-sitter-<lang> crate) aborted the process"""
    return r.get('returncode') == -6 and 'scanner.c' in r.get('stderr', '') and 'Assertion' in r.get('stderr', '')


def run_vmon(monitor, ctx, shards=None, extra=None):
    os.makedirs(os.path.join(ROOT, 'work'), exist_ok=True)
    n = shards or NCPU
    timeout = 7200 if ctx.thorough else 1500
    jobs = []
    with cf.ThreadPoolExecutor(max_workers=NCPU) as ex:
        for i in range(n):
            a = [monitor, '--seed', str(ctx.seed), '--tier', ctx.tier, '--shard', f'{i}/{n}'] + (extra or [])
            jobs.append(ex.submit(_vmon_once, a, timeout))
        res = [j.result() for j in jobs]
    out = []
    for r in res:
        if r.get('died') and _third_party_scanner_abort(r):
            # A C assertion inside a grammar's scanner kills the whole shard.  It is third-party code, not a verdict on
            # ast-grep: the shard is repeated one language at a time, the languages that abort again are dropped with a
            # note (inconclusive), the others keep their results.
            langs = sorted(os.listdir(os.path.join(ROOT, 'corpus')))
            with cf.ThreadPoolExecutor(max_workers=NCPU) as ex:
                subs = list(ex.map(lambda l: (l, _vmon_once_env(r['args'], timeout, {'VERIF_LANGS': l})), langs))
            for l, sub in subs:
                if sub.get('died'):
                    if _third_party_scanner_abort(sub):
                        out.append({'inconclusive': 1, 'notes': [f"third-party observation: the {l} grammar's scanner aborts on an assertion under {monitor} ({sub['stderr'].strip().splitlines()[-1][:160]}); that language is dropped from shard {r['args'][r['args'].index('--shard') + 1]}"]})
                        continue
                    raise HarnessError(f"vmon {monitor} shard died: rc={sub['returncode']} {sub['stderr'][-400:]}")
                out.append(sub)
            continue
        if r.get('died'):
            # a dying shard (abort, stack overflow, kill) is reported by the monitor-specific
            # drivers that expect it (C11); here it is a harness error, never a verdict
            raise HarnessError(f"vmon {monitor} shard died: rc={r['returncode']} {r['stderr'][-400:]}")
        out.append(r)
    return out


def run_vmon_replay(monitor, ctx, replay):
    os.makedirs(os.path.join(ROOT, 'work'), exist_ok=True)
    f = tempfile.NamedTemporaryFile('w', prefix='replay-', suffix='.json', delete=False, dir=os.path.join(ROOT, 'work'))
    json.dump(replay, f); f.close()
    try:
        r = _vmon_once([monitor, '--seed', str(ctx.seed), '--tier', ctx.tier, '--replay', f.name], 600)
    finally:
        os.unlink(f.name)
    if r.get('died'):
        # process death while replaying a single case is itself the observation
        return {'evaluations': 1, 'violations': [{'signature': f"{ctx.pid}/abort/replay", 'what': f"replay child died rc={r['returncode']}: {r['stderr'][-300:]}", 'replay': replay}]}
    return r


def sg(args, cwd=None, stdin=None, env=None, timeout=120, uid=None):
    """Run the real ast-grep binary. Returns (rc, stdout, stderr)."""
    e = dict(os.environ)
    e.pop('AST_GREP_VERIF_LOG', None)
    e['NO_COLOR'] = '1'
    if env:
        e.update(env)
    pre = None
    if uid is not None:
        def pre():
            os.setgid(uid); os.setuid(uid)
    p = subprocess.run([SG] + args, cwd=cwd, input=stdin, env=e, stdout=subprocess.PIPE, stderr=subprocess.PIPE,
                       timeout=timeout, preexec_fn=pre)
    return p.returncode, p.stdout, p.stderr


def new_report():
    return {'evaluations': 0, 'distinct_nontrivial': 0, 'samples': [], 'counters': {}, 'violations': [],
            'violation_counts': {}, 'inconclusive': 0, 'notes': []}


def add_violation(rep, signature, what, replay, cap=3):
    n = rep['violation_counts'].get(signature, 0)
    rep['violation_counts'][signature] = n + 1
    if n < cap:
        rep['violations'].append({'signature': signature, 'what': what, 'replay': replay})


def count(rep, key, by=1):
    rep['counters'][key] = rep['counters'].get(key, 0) + by


def write_tree(base, files):
    """files: {relative path: str|bytes}"""
    for rel, content in files.items():
        p = os.path.join(base, rel)
        os.makedirs(os.path.dirname(p) or base, exist_ok=True)
        mode = 'wb' if isinstance(content, bytes) else 'w'
        with open(p, mode) as fh:
            fh.write(content)


def corpus(lang):
    d = os.path.join(ROOT, 'corpus', lang)
    out = []
    for n in sorted(os.listdir(d)):
        out.append((n, open(os.path.join(d, n), encoding='utf-8').read()))
    return out
