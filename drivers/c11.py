"""C11 driver: runs `vmon c11` in child processes so that aborts / stack overflows / CPU limits of one
input do not end the run; the dying input is identified through the child's progress marker.
Second part: the real CLI (rule files, test files, sgconfig) with deadlock detection by /proc sampling."""
import os, json, subprocess, tempfile, resource, time, signal, hashlib, concurrent.futures as cf
import common
from common import ROOT, VMON, SG, new_report, add_violation, count

CPU_CASE = 10       # seconds of CPU time one input may use (rule <= 2 KB, text <= 2 KB)


def _limits(cpu):
    def f():
        resource.setrlimit(resource.RLIMIT_CPU, (cpu, cpu + 2))
        resource.setrlimit(resource.RLIMIT_CORE, (0, 0))
    return f


def _vmon(args, cpu, wall):
    out = tempfile.NamedTemporaryFile(prefix='c11-', suffix='.json', delete=False, dir=os.path.join(ROOT, 'work')); out.close()
    try:
        p = subprocess.run([VMON, 'c11'] + args + ['--out', out.name], stdout=subprocess.PIPE, stderr=subprocess.PIPE, text=True,
                           timeout=wall, preexec_fn=_limits(cpu))
        rc, err = p.returncode, p.stderr
    except subprocess.TimeoutExpired:
        rc, err = 'wall-timeout', ''
    data = None
    if rc == 0:
        try:
            data = json.load(open(out.name))
        except Exception:
            rc = 'bad-output'
    try:
        os.unlink(out.name)
    except OSError:
        pass
    return rc, err, data


def dump_case(idx, seed):
    rc, err, data = _vmon(['--seed', str(seed), f'dump={idx}'], 30, 60)
    return data['samples'][0] if data else None


def classify_death(rc, err):
    if rc == -signal.SIGABRT or rc == 134:
        return 'abort/stack-overflow' if 'overflowed its stack' in err else 'abort'
    if rc in (-signal.SIGSEGV, 139):
        return 'signal/SIGSEGV'
    if rc in (-signal.SIGXCPU, -signal.SIGKILL, 152, 137):
        return 'cpu-limit'
    if rc == 3:
        return 'uncaught-panic'
    return None


def run_range(rep, seed, a, b, tier):
    """run cases [a,b) in child processes, restarting after a dying input"""
    cur = a
    while cur < b:
        prog = tempfile.NamedTemporaryFile(prefix='c11-prog-', delete=False, dir=os.path.join(ROOT, 'work')); prog.close()
        n = b - cur
        # whole-range CPU budget: generous; a single pathological input is re-run alone below
        rc, err, data = _vmon(['--seed', str(seed), '--tier', tier, f'from={cur}', f'to={b}', f'progress={prog.name}'], 60 + n // 20, 1800)
        try:
            at = int(open(prog.name).read().strip() or cur)
        except Exception:
            at = cur
        os.unlink(prog.name)
        if rc == 0:
            merge_into(rep, data)
            return
        kind = classify_death(rc, err)
        if kind is None:
            rep['inconclusive'] += 1
            rep['notes'].append(f'c11 child ended rc={rc} at index {at}: {err[-200:]}')
            cur = at + 1
            continue
        # partial results of the cases before `at` are lost with the child: re-run them (cheap)
        if at > cur:
            rc2, err2, d2 = _vmon(['--seed', str(seed), '--tier', tier, f'from={cur}', f'to={at}'], 60 + (at - cur) // 20, 1800)
            if rc2 == 0:
                merge_into(rep, d2)
        # confirm on the single input with the per-input CPU limit
        rc1, err1, d1 = _vmon(['--seed', str(seed), '--tier', tier, f'from={at}', f'to={at + 1}'], CPU_CASE, 120)
        kind1 = classify_death(rc1, err1)
        case = dump_case(at, seed) or {'monitor': 'c11', 'index': at}
        if kind1:
            site = ''
            if 'stack-overflow' in kind1:
                site = '/' + stack_site(case)
            add_violation(rep, f'C11/{kind1}{site}', f'input #{at} ({case.get("generator")}) kills the process ({kind1}): {str(case.get("yaml"))[:300]}', case)
            rep['evaluations'] += 1
        elif rc1 == 0:
            merge_into(rep, d1)
            if kind == 'cpu-limit':
                rep['notes'].append(f'batch hit its CPU budget near #{at}, the single input is fine')
            else:
                rep['inconclusive'] += 1
                rep['notes'].append(f'batch died ({kind}) at #{at} but the single input passes: inconclusive')
        cur = at + 1


def _refs(v, key):
    """all values of `key` anywhere below v"""
    out = []
    if isinstance(v, dict):
        for k, x in v.items():
            if k == key:
                if isinstance(x, str):
                    out.append(x)
                elif isinstance(x, list):
                    out += [y for y in x if isinstance(y, str)]
            out += _refs(x, key)
    elif isinstance(v, list):
        for x in v:
            out += _refs(x, key)
    return out


def _has_cycle(graph):
    state = {}
    def visit(n):
        if state.get(n) == 1:
            return True
        if state.get(n) == 2 or n not in graph:
            return False
        state[n] = 1
        if any(visit(m) for m in graph[n]):
            return True
        state[n] = 2
        return False
    return any(visit(n) for n in list(graph))


def stack_site(case):
    """attribution predicate for stack overflows: is there a reference cycle among the utilities
    (necessarily through relational operators, the same-node cycles being rejected at load time),
    or among the rewriters? Anything else is a different defect."""
    try:
        docs = [json.loads(case.get('yaml'))]
    except Exception:
        return 'unparsed-input'
    for d in docs:
        if not isinstance(d, dict):
            continue
        utils = d.get('utils') if isinstance(d.get('utils'), dict) else {}
        if _has_cycle({k: _refs(v, 'matches') for k, v in utils.items()}):
            return 'relational-util-cycle'
        rws = d.get('rewriters') if isinstance(d.get('rewriters'), list) else []
        g = {r.get('id'): _refs(r, 'rewriters') for r in rws if isinstance(r, dict)}
        if _has_cycle(g):
            return 'rewriter-cycle'
    return 'no-reference-cycle'


def merge_into(rep, d):
    if not d:
        return
    rep['evaluations'] += d.get('evaluations', 0)
    rep['distinct_nontrivial'] += d.get('distinct_nontrivial', 0)
    for k, v in d.get('counters', {}).items():
        if not k.startswith('range_'):
            count(rep, k, v)
    for v in d.get('violations', []):
        add_violation(rep, v['signature'], v['what'], v['replay'])
    for k, v in d.get('violation_counts', {}).items():
        rep['violation_counts'][k] = max(rep['violation_counts'].get(k, 0), v)
    for s in d.get('samples', []):
        if len(rep['samples']) < 5:
            rep['samples'].append(s)


def run(ctx):
    rep = new_report()
    os.makedirs(os.path.join(ROOT, 'work'), exist_ok=True)
    total = 40000 if not ctx.thorough else 2400000
    shards = common.NCPU
    per = total // shards
    reps = []
    with cf.ThreadPoolExecutor(max_workers=shards) as ex:
        futs = []
        for i in range(shards):
            r = new_report(); reps.append(r)
            futs.append(ex.submit(run_range, r, ctx.seed, i * per, (i + 1) * per, ctx.tier))
        for f in futs:
            f.result()
    for r in reps:
        merge_into(rep, r)
        rep['inconclusive'] += r['inconclusive']
        rep['notes'] += r['notes'][:5]
    import c11_cli
    c11_cli.run_into(ctx, rep)
    return rep


def replay(ctx, r):
    rep = new_report()
    os.makedirs(os.path.join(ROOT, 'work'), exist_ok=True)
    if r.get('cli'):
        import c11_cli
        return c11_cli.replay(ctx, r)
    f = tempfile.NamedTemporaryFile('w', suffix='.json', delete=False, dir=os.path.join(ROOT, 'work'))
    json.dump(r, f); f.close()
    rc, err, data = _vmon(['--replay', f.name], CPU_CASE, 120)
    os.unlink(f.name)
    kind = classify_death(rc, err)
    if kind:
        site = '/' + stack_site(r) if 'stack-overflow' in kind else ''
        add_violation(rep, f'C11/{kind}{site}', f'input kills the process ({kind})', r)
        rep['evaluations'] = 1
    elif data:
        merge_into(rep, data)
    return rep
