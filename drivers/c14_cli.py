"""C14, CLI part: the generated suppression files through `ast-grep scan` in a real project."""
import os, json, subprocess, shutil
import common
from common import ROOT, VMON, sg, new_report, add_violation, count


def cases(seed, n):
    out = os.path.join(ROOT, 'work', f'c14files-{os.getpid()}.json')
    p = subprocess.run([VMON, 'c14-files', '--seed', str(seed), f'n={n}', '--out', out], capture_output=True, text=True, timeout=300)
    if p.returncode != 0:
        raise common.HarnessError('c14-files failed: ' + p.stderr[-200:])
    d = json.load(open(out)); os.unlink(out)
    return d['samples']


def run_case(rep, work, c, tag):
    d = os.path.join(work, f'p{tag}')
    files = {'sgconfig.yml': 'ruleDirs: [rules]\n', f'src/case.{c["ext"]}': c['source']}
    for i, y in enumerate(c['rules']):
        files[f'rules/r{i + 1}.yml'] = y
    common.write_tree(d, files)
    rc, out, err = sg(['scan', '--json=stream'], cwd=d)
    shutil.rmtree(d, ignore_errors=True)
    rep['evaluations'] += 1
    replay = {'monitor': 'py:c14_cli', 'case': c}
    try:
        recs = [json.loads(l) for l in out.decode('utf-8', 'replace').splitlines() if l.strip()]
    except Exception as e:
        add_violation(rep, 'C14/cli/output-unreadable', f'stdout is not JSON lines: {e}', replay)
        return
    got_f = sorted((r['ruleId'], r['range']['start']['line']) for r in recs if r['ruleId'] != 'unused-suppression')
    got_u = sorted(r['range']['start']['line'] for r in recs if r['ruleId'] == 'unused-suppression')
    # per-line multiplicity is part of the expectation (computed by the model next to the set)
    hdr = {'TypeScript': 1, 'Go': 2, 'C': 1, 'Java': 2, 'Rust': 1, 'Css': 1, 'Html': 1}.get(c['lang'], 0)
    want_f = sorted((r, l) for r, l in c['findings_multi'])
    want_u = sorted(c['unused'])
    known = {}
    for k in c['known_lines']:
        l, sig = k.split(':', 1)
        known[int(l)] = sig

    def report(kind, line, what):
        sig = known.get(line) or f'C14/cli/{kind}'
        add_violation(rep, sig, f"{c['lang']} line {line}: {what} :: {c['source'][:300]!r}", replay)
    for f in sorted(set(want_f) - set(got_f)):
        report('finding-wrongly-suppressed', f[1], f'{f[0]} should be reported')
    for f in sorted(set(got_f) - set(want_f)):
        report('finding-not-suppressed', f[1], f'{f[0]} should be suppressed')
    for u in sorted(set(want_u) - set(got_u)):
        report('unused-not-reported', u, 'comment silenced nothing but is not reported as unused')
    for u in sorted(set(got_u) - set(want_u)):
        report('used-reported-unused', u, 'comment silenced a finding but is reported as unused')
    if set(got_f) == set(want_f) and got_f != want_f:
        report('multiplicity', hdr, f'finding counts differ: {got_f} vs {want_f}')
    if len([l for l in c['lines'] if l['comment']]) >= 2 and len(want_f) + len(got_f) >= 2:
        rep['distinct_nontrivial'] += 1


def run(ctx):
    rep = new_report()
    work = ctx.workdir()
    n = 1200 if ctx.thorough else 130
    cs = cases(ctx.seed, n)
    import concurrent.futures as cf
    reps = []
    def one(ic):
        r = new_report(); run_case(r, work, ic[1], ic[0]); return r
    with cf.ThreadPoolExecutor(max_workers=common.NCPU) as ex:
        for r in ex.map(one, enumerate(cs)):
            rep['evaluations'] += r['evaluations']; rep['distinct_nontrivial'] += r['distinct_nontrivial']
            for v in r['violations']:
                add_violation(rep, v['signature'], v['what'], v['replay'])
    count(rep, 'cli_cases', len(cs))
    if cs:
        rep['samples'].append({'lang': cs[0]['lang'], 'source': cs[0]['source'], 'expected_findings': cs[0]['findings'], 'expected_unused': cs[0]['unused']})
    ctx.cleanup()
    return rep


def replay(ctx, r):
    rep = new_report()
    run_case(rep, ctx.workdir(), r['case'], 'replay')
    ctx.cleanup()
    return rep
