"""C17: files are processed independently, whatever the thread count or schedule; faults do not spill over."""
import os, json, shutil, hashlib, stat
import common
from common import sg, new_report, add_violation, count

JS = ['foo(1);\n', 'foo(a, b);\nbar();\n', 'function f() { return foo(x) + foo(y); }\n', 'bar(2);\n', 'let z = foo("é🦀");\n// foo(c)\n', 'foo(\n  1,\n  2\n);\n']
PY = ['foo(1)\n', 'def f():\n    return foo(2)\n', 'bar()\n']
RS = ['fn m() { foo(1); }\n', 'fn n() { bar(); foo(2, 3); }\n']
HTML = ['<div><script>foo(1); bar()</script></div>\n', '<p>foo</p>\n', '<style>a { color: red }</style><script>foo(9)</script>\n']
RULES = {
    'js-foo': {'id': 'js-foo', 'language': 'JavaScript', 'rule': {'pattern': 'foo($$$A)'}, 'message': 'js $$$A'},
    'py-foo': {'id': 'py-foo', 'language': 'Python', 'rule': {'pattern': 'foo($$$A)'}, 'severity': 'warning', 'ignores': ['nothing/**']},
    'rs-foo-glob': {'id': 'rs-foo-glob', 'language': 'Rust', 'rule': {'pattern': 'bar($$$A)'}, 'files': ['**/*.rs']},
    'rs-foo': {'id': 'rs-foo', 'language': 'Rust', 'rule': {'pattern': 'foo($$$A)'}},
    'css-decl': {'id': 'css-decl', 'language': 'Css', 'rule': {'kind': 'declaration'}},
}


def gen_tree(rng, n):
    files = {}
    for i in range(n):
        d = rng.choice(['', 'a', 'a/b', 'c', 'c/d/e'])
        kind = rng.choice(['js', 'js', 'js', 'py', 'rs', 'html', 'txt'])
        body = {'js': JS, 'py': PY, 'rs': RS, 'html': HTML, 'txt': ['foo(1)\n']}[kind]
        text = ''.join(rng.choice(body) for _ in range(rng.randint(1, 4)))
        files[os.path.join(d, f'f{i}.{kind}')] = text
    return files


def norm(rec):
    r = dict(rec)
    r['file'] = r['file'][2:] if r['file'].startswith('./') else r['file']
    return json.dumps(r, sort_keys=True)


def parse_stream(out):
    return [json.loads(l) for l in out.decode('utf-8').splitlines() if l.strip()]


def modes(work):
    """(name, argv builder) — both read the tree given as a single root path"""
    return [('run', lambda: ['run', '-p', 'foo($$$A)', '-l', 'js', '--json=stream']),
            # language inferred per file: the pattern is compiled per language, html hosts get their <script> searched
            ('run-infer', lambda: ['run', '-p', 'foo($$$A)', '--json=stream']),
            # entity tracing writes one line per file to stderr under a lock shared by the walker threads
            ('run-inspect', lambda: ['run', '-p', 'foo($$$A)', '-l', 'js', '--json=stream', '--inspect', 'entity']),
            ('scan', lambda: ['scan', '-c', os.path.join(work, 'sgconfig.yml'), '--json=stream'])]


def check_log(rep, log, recs, eligible, faulty, what, replay):
    evs = []
    if os.path.exists(log):
        for line in open(log, encoding='utf-8', errors='replace'):
            try:
                evs.append(json.loads(line))
            except Exception:
                add_violation(rep, 'C17/log/torn-line', f'{what}: event log line is not JSON: {line[:80]!r}', replay)
        os.unlink(log)
    begin, end, sends, recv_ok, recv_tids = {}, {}, 0, 0, set()
    items = 0
    for e in evs:
        p = e.get('path', '')
        p = p[2:] if p.startswith('./') else p
        if e['ev'] == 'produce_begin':
            begin[p] = begin.get(p, 0) + 1
        elif e['ev'] == 'produce_end':
            end[p] = end.get(p, 0) + 1; items += e.get('items', 0)
        elif e['ev'] == 'send':
            sends += 1
            depth = sends - recv_ok
            if depth > rep['counters'].get('max_items_in_flight', 0):
                rep['counters']['max_items_in_flight'] = depth
        elif e['ev'] == 'recv':
            recv_tids.add(e['tid'])
            if e.get('got'):
                recv_ok += 1
    for p in eligible:
        if begin.get(p, 0) != 1 or end.get(p, 0) != 1:
            add_violation(rep, 'C17/log/not-exactly-once', f'{what}: {p} produced begin={begin.get(p, 0)} end={end.get(p, 0)} times', replay)
    if not (sends == recv_ok == items):
        add_violation(rep, 'C17/log/conservation', f'{what}: items={items} send={sends} recv={recv_ok}', replay)
    if len(recv_tids) > 1:
        add_violation(rep, 'C17/log/multiple-consumers', f'{what}: recv on threads {sorted(recv_tids)}', replay)
    sig = hashlib.sha1(json.dumps([(e['ev'], e.get('path', '')) for e in evs]).encode()).hexdigest()[:12]
    return sig, len(evs)


def single_file_runs(argv, files, d):
    """the independence oracle: every file scanned alone, in its own process"""
    import concurrent.futures as cf

    def one(p):
        rc, out, err = sg(argv() + [p], cwd=d)
        try:
            return p, sorted(norm(r) for r in parse_stream(out))
        except Exception:
            return p, None
    with cf.ThreadPoolExecutor(max_workers=common.NCPU) as ex:
        return dict(ex.map(one, sorted(files)))


def run_big_tree(rep, ctx, work, rng):
    """Many small files and a slow consumer: the producers run far ahead of the printing thread
    (hundreds of items queued), through a recv failpoint or a stdout reader that starts late."""
    import subprocess, time
    n = rng.randint(1500, 3000) if ctx.thorough else rng.randint(600, 800)
    files = {}
    for i in range(n):
        files[os.path.join(rng.choice(['', 'a', 'b/c']), f'g{i}.js')] = rng.choice(JS) + ('// ' + 'x' * rng.randint(0, 200) + '\n')
    d = os.path.join(work, 'big')
    common.write_tree(d, files)
    name, argv = modes(work)[rng.choice([0, 3])]
    expected = single_file_runs(argv, files, d)
    want = sorted(x for p, v in expected.items() if v for x in v)
    eligible = sorted(files)
    variants = [(16, 'recv=2000', False), (4, 'recv=1500', False), (16, None, True), (1, None, True), (8, 'produce=300,recv=3000', True)]
    if ctx.thorough:
        variants = variants * 3
    for vi, (t, delays, slow_reader) in enumerate(variants):
        log = os.path.join(work, f'log-big-{vi}.jsonl')
        open(log, 'w').close()
        env = dict(os.environ); env['NO_COLOR'] = '1'; env['AST_GREP_VERIF_LOG'] = log
        if delays:
            env['AST_GREP_VERIF_DELAYS'] = f'{delays};seed={rng.randint(1, 10**6)}'
        args = [common.SG] + argv() + ['-j', str(t), '.']
        pr = subprocess.Popen(args, cwd=d, env=env, stdout=subprocess.PIPE, stderr=subprocess.PIPE)
        if slow_reader:
            time.sleep(0.7)  # the pipe (64 KiB) fills, the printing thread blocks, producers keep going
        try:
            out, err = pr.communicate(timeout=600)
        except subprocess.TimeoutExpired:
            pr.kill(); rep['inconclusive'] += 1
            continue
        rep['evaluations'] += 1
        count(rep, 'big_tree_runs')
        what = f'big tree ({n} files) run -j {t} delays={delays} slow_reader={slow_reader}'
        replay = {'monitor': 'py:c17', 'big_tree_files': n, 'threads': t, 'delays': delays, 'slow_reader': slow_reader}
        try:
            recs = parse_stream(out)
        except Exception as ex:
            add_violation(rep, 'C17/output-malformed/big', f'{what}: {ex}; stderr {err[-200:]!r}', replay)
            continue
        got = sorted(norm(x) for x in recs)
        if got != want:
            missing = len(set(want) - set(got)); extra = len(set(got) - set(want))
            kind = 'lost' if missing and not extra else 'duplicated-or-invented' if extra and not missing else 'differs'
            add_violation(rep, f'C17/records/{kind}/big', f'{what}: {len(got)} records, union of single-file runs has {len(want)} (missing {missing}, extra {extra}); stderr {err[-200:]!r}', replay)
        sig, nev = check_log(rep, log, recs, eligible, {}, what, replay)
        rep['_sigs'].add(sig)
        count(rep, 'events', nev); count(rep, 'records', len(recs))
    shutil.rmtree(d, ignore_errors=True)


def run_vanishing(rep, ctx, work, k, rng, files, d, expected, mname, argv):
    """Files deleted while the walk is in progress (between listing and reading): the findings of every
    other file are unchanged; a vanished file contributes all of its records or none."""
    import subprocess, time
    dd = d + '-vanish'
    for it in range(3 if ctx.thorough else 1):
        shutil.rmtree(dd, ignore_errors=True)
        shutil.copytree(d, dd, symlinks=True)
        victims = set(rng.sample(sorted(files), min(len(files), 10)))
        t = rng.choice([1, 2, 4, 8])
        env = dict(os.environ); env['NO_COLOR'] = '1'; env.pop('AST_GREP_VERIF_LOG', None)
        env['AST_GREP_VERIF_DELAYS'] = f'produce={rng.choice([2000, 6000])};seed={rng.randint(1, 10**6)}'
        pr = subprocess.Popen([common.SG] + argv() + ['-j', str(t), '.'], cwd=dd, env=env, stdout=subprocess.PIPE, stderr=subprocess.PIPE)
        time.sleep(rng.choice([0.005, 0.02, 0.05]))
        gone = 0
        for v in sorted(victims):
            try:
                os.unlink(os.path.join(dd, v)); gone += 1
            except OSError:
                pass
        try:
            out, err = pr.communicate(timeout=300)
        except subprocess.TimeoutExpired:
            pr.kill(); rep['inconclusive'] += 1
            continue
        rep['evaluations'] += 1
        count(rep, 'fault.vanishing-file', gone)
        what = f'{mname} -j {t} with {gone} files deleted during the walk'
        replay = {'monitor': 'py:c17', 'mode': mname, 'threads': t, 'fault': 'vanishing', 'victims': sorted(victims)}
        try:
            recs = parse_stream(out)
        except Exception as ex:
            add_violation(rep, 'C17/output-malformed/vanishing', f'{what}: {ex}; stderr {err[-200:]!r}', replay)
            continue
        by_file = {}
        for x in recs:
            f = x['file'][2:] if x['file'].startswith('./') else x['file']
            by_file.setdefault(f, []).append(norm(x))
        for p, v in expected.items():
            got = sorted(by_file.get(p, []))
            if p in victims:
                if got and got != (v or []):
                    add_violation(rep, 'C17/records/partial-vanished-file', f'{what}: {p} has {len(got)} of {len(v or [])} records', replay)
                if got:
                    count(rep, 'vanished_files_still_read')
                else:
                    count(rep, 'vanished_files_skipped')
            elif got != (v or []):
                add_violation(rep, 'C17/records/differs/vanishing', f'{what}: records of untouched file {p} differ ({len(got)} vs {len(v or [])}); stderr {err[-200:]!r}', replay)
        if rc_bad(pr.returncode):
            add_violation(rep, 'C17/abnormal-exit/vanishing', f'{what}: exit status {pr.returncode}; stderr {err[-300:]!r}', replay)
    shutil.rmtree(dd, ignore_errors=True)


def rc_bad(rc):
    # killed by a signal or a panic exit status
    return rc is None or rc < 0 or rc == 101


def run_tree(rep, ctx, work, k, rng):
    n = rng.randint(50, 400) if ctx.thorough else rng.randint(40, 90)
    files = gen_tree(rng, n)
    d = os.path.join(work, f't{k}')
    common.write_tree(d, files)
    common.write_tree(work, {'sgconfig.yml': 'ruleDirs: [rules]\n', **{f'rules/{i}.yml': json.dumps(r) for i, r in RULES.items()}})
    threads = list(range(1, 17)) if ctx.thorough else [1, 2, 4, 8, 16]
    reps = 6 if ctx.thorough else 3
    for mname, argv in modes(work):
        # expected: union of single-file runs
        expected = single_file_runs(argv, files, d)
        healthy_union = sorted(x for p, v in expected.items() if v for x in v)
        run_vanishing(rep, ctx, work, k, rng, files, d, expected, mname, argv)
        # faults: a random subset of files is damaged
        fault_plans = [('none', {})]
        victims = rng.sample(sorted(files), min(len(files), 12))
        plan = {}
        kinds = ['empty', 'non-utf8', 'oversized', 'directory', 'dangling-symlink', 'unreadable']
        for i, p in enumerate(victims):
            plan[p] = kinds[i % len(kinds)]
        fault_plans.append(('faults', plan))
        for fname, plan in fault_plans:
            dd = d
            if plan:
                dd = d + '-faulty'
                shutil.rmtree(dd, ignore_errors=True)
                shutil.copytree(d, dd, symlinks=True)
                for p, kind in plan.items():
                    fp = os.path.join(dd, p)
                    os.unlink(fp)
                    if kind == 'empty':
                        open(fp, 'w').close()
                    elif kind == 'non-utf8':
                        open(fp, 'wb').write(b'foo(1);\n\xff\xfe\x00foo(2)\n')
                    elif kind == 'oversized':
                        open(fp, 'w').write('foo(1);\n' + '// padding line\n' * 210000)
                    elif kind == 'directory':
                        os.mkdir(fp); open(os.path.join(fp, 'inner.txt'), 'w').write('foo(1)\n')
                    elif kind == 'dangling-symlink':
                        os.symlink('does-not-exist', fp)
                    elif kind == 'unreadable':
                        open(fp, 'w').write('foo(1);\n'); os.chmod(fp, 0)
                    count(rep, f'fault.{kind}', 1)
                for root, dirs, fs in os.walk(dd):
                    os.chmod(root, 0o755)
            want = sorted(x for p, v in expected.items() if v and p not in plan for x in v)
            eligible = [p for p in files if p not in plan and (mname not in ('run', 'run-inspect') or p.endswith('.js')) and not p.endswith('.txt')]
            for t in threads:
                for r in range(reps):
                    log = os.path.join(work, f'log-{k}-{mname}-{fname}-{t}-{r}.jsonl')
                    open(log, 'w').close(); os.chmod(log, 0o666)
                    env = {'AST_GREP_VERIF_LOG': log}
                    if r > 0:
                        env['AST_GREP_VERIF_DELAYS'] = f'produce={rng.choice([200, 2000])},send={rng.choice([0, 500, 2000])},recv={rng.choice([0, 500, 3000])};seed={rng.randint(1, 10**6)}'
                    args = argv() + ['-j', str(t), '.']
                    rc, out, err = sg(args, cwd=dd, env=env, uid=65534 if plan else None, timeout=300)
                    rep['evaluations'] += 1
                    what = f'{mname} -j {t} rep {r} ({fname})'
                    replay = {'monitor': 'py:c17', 'files': files if len(json.dumps(files)) < 60000 else {'note': 'tree too large, regenerate with the seed'}, 'faults': plan, 'mode': mname, 'threads': t, 'delays': env.get('AST_GREP_VERIF_DELAYS')}
                    try:
                        recs = parse_stream(out)
                    except Exception as ex:
                        add_violation(rep, f'C17/output-malformed/{fname}', f'{what}: {ex}; stderr {err[-200:]!r}', replay)
                        continue
                    got = sorted(norm(x) for x in recs)
                    if got != want:
                        missing = len([x for x in want if x not in got]); extra = len([x for x in got if x not in want])
                        kind = 'lost' if missing and not extra else 'duplicated-or-invented' if extra and not missing else 'differs'
                        add_violation(rep, f'C17/records/{kind}/{fname}', f'{what}: {len(got)} records, union of single-file runs has {len(want)} (missing {missing}, extra {extra}); stderr {err[-200:]!r}', replay)
                    bad = [x['file'] for x in recs if (x['file'][2:] if x['file'].startswith('./') else x['file']) in plan]
                    if bad:
                        add_violation(rep, 'C17/records/from-faulty-file', f'{what}: records for damaged files {bad[:3]}', replay)
                    sig, nev = check_log(rep, log, recs, eligible, plan, what, replay)
                    rep['_sigs'].add(sig)
                    rep['_orders'].add(hashlib.sha1(json.dumps([x['file'] for x in recs]).encode()).hexdigest()[:12])
                    count(rep, 'events', nev)
                    count(rep, 'records', len(recs))
            if plan:
                for root, dirs, fs in os.walk(dd):
                    for f in fs:
                        try:
                            os.chmod(os.path.join(root, f), 0o644)
                        except OSError:
                            pass
                shutil.rmtree(dd, ignore_errors=True)
    shutil.rmtree(d, ignore_errors=True)


def tsan_pass(rep, ctx, work):
    """Thorough tier: the same workload on a ThreadSanitizer build of the CLI (std instrumented)."""
    import sanitize, subprocess
    ok, msg = sanitize.build_tsan()
    if not ok:
        rep['inconclusive'] += 1
        rep['notes'].append('tsan: build unavailable: ' + msg[-300:])
        return
    rng = ctx.rng
    files = gen_tree(rng, 300)
    d = os.path.join(work, 'tsan-tree')
    common.write_tree(d, files)
    common.write_tree(work, {'sgconfig.yml': 'ruleDirs: [rules]\n', **{f'rules/{i}.yml': json.dumps(r) for i, r in RULES.items()}})
    for mname, argv in modes(work):
        base = None
        for t in [1, 2, 4, 8, 16]:
            for r in range(3):
                logbase = os.path.join(work, f'tsan-{mname}-{t}-{r}')
                env = dict(os.environ); env.pop('AST_GREP_VERIF_LOG', None)
                env.update(sanitize.tsan_env(logbase)); env['NO_COLOR'] = '1'
                if r:
                    env['AST_GREP_VERIF_DELAYS'] = f'produce={rng.choice([200, 2000])},send={rng.choice([0, 500])},recv={rng.choice([0, 500, 3000])};seed={rng.randint(1, 10**6)}'
                try:
                    p = subprocess.run([sanitize.SG_TSAN] + argv() + ['-j', str(t), '.'], cwd=d, env=env, stdout=subprocess.PIPE, stderr=subprocess.PIPE, timeout=900)
                except subprocess.TimeoutExpired:
                    rep['inconclusive'] += 1
                    continue
                count(rep, 'tsan_runs')
                rep['evaluations'] += 1
                try:
                    got = sorted(norm(x) for x in parse_stream(p.stdout))
                except Exception:
                    got = None
                if base is None:
                    base = got
                elif got != base:
                    add_violation(rep, 'C17/records/differs/tsan', f'tsan {mname} -j {t}: records differ from the -j 1 run', {'monitor': 'py:c17', 'mode': mname, 'threads': t})
                for tr in sanitize.collect_tsan(logbase):
                    sites = sanitize.classify_tsan(tr)
                    if sites:
                        count(rep, 'tsan_reports_ast_grep')
                        add_violation(rep, f"C17/tsan/{tr['kind'].replace(' ', '-')}/{'|'.join(sorted(set(sites)))}",
                                      f"ThreadSanitizer {tr['kind']} in {mname} -j {t}: {tr['summary']}",
                                      {'monitor': 'py:c17', 'mode': mname, 'threads': t, 'stacks': [s[:10] for s in tr['stacks'][:2]]})
                    else:
                        count(rep, 'tsan_reports_third_party')
                        note = f"tsan third-party observation: {tr['kind']}: {tr['summary'][:160]}"
                        if note not in rep['notes'] and len(rep['notes']) < 20:
                            rep['notes'].append(note)
    shutil.rmtree(d, ignore_errors=True)


def run(ctx):
    rep = new_report(); rep['_sigs'] = set(); rep['_orders'] = set()
    work = ctx.workdir()
    os.chmod(work, 0o755)
    n = 10 if ctx.thorough else 3
    for k in range(n):
        run_tree(rep, ctx, work, k, ctx.rng)
    run_big_tree(rep, ctx, work, ctx.rng)
    if ctx.thorough or os.environ.get('VERIF_SANITIZE'):
        tsan_pass(rep, ctx, work)
    rep['counters']['distinct_interleaving_signatures'] = len(rep['_sigs'])
    rep['counters']['distinct_consume_orders'] = len(rep['_orders'])
    rep['distinct_nontrivial'] = len(rep.pop('_sigs'))
    rep.pop('_orders')
    rep['samples'].append({'argv': ['scan', '-c', 'sgconfig.yml', '--json=stream', '-j', '8', '.'], 'delays': 'produce=2000,send=500,recv=3000;seed=..', 'faults': ['empty', 'non-utf8', 'oversized', 'directory', 'dangling-symlink', 'unreadable (uid nobody)']})
    ctx.cleanup()
    return rep


def replay(ctx, r):
    rep = new_report()
    rep['notes'].append('C17 violations depend on the schedule; re-run the check with the recorded seed')
    return rep
