"""C01 (CLI part): `ast-grep run` / `ast-grep scan` report exactly what the library reports per file,
and the H1 prune assertion inside the binary (literal-substring file skipping) never fires."""
import os, json, subprocess, tempfile, shutil, hashlib
import common
from common import ROOT, VMON, sg, new_report, add_violation, count

EXT = {'Bash': 'sh', 'C': 'c', 'Cpp': 'cpp', 'CSharp': 'cs', 'Css': 'css', 'Elixir': 'ex', 'Go': 'go', 'Haskell': 'hs',
       'Html': 'html', 'Java': 'java', 'JavaScript': 'js', 'Json': 'json', 'Kotlin': 'kt', 'Lua': 'lua', 'Php': 'php',
       'Python': 'py', 'Ruby': 'rb', 'Rust': 'rs', 'Scala': 'scala', 'Swift': 'swift', 'Tsx': 'tsx', 'TypeScript': 'ts',
       'Yaml': 'yml'}


def expect(lang, files, seed, per_file, queries=None):
    req = {'lang': lang, 'files': files, 'per_file': per_file}
    if queries is not None:
        req['queries'] = queries
    f = tempfile.NamedTemporaryFile('w', suffix='.json', delete=False, dir=os.path.join(ROOT, 'work'))
    json.dump(req, f); f.close()
    try:
        p = subprocess.run([VMON, 'c01-expect', '--seed', str(seed), '--replay', f.name], capture_output=True, text=True, timeout=600)
    finally:
        os.unlink(f.name)
    if p.returncode != 0:
        raise common.HarnessError('c01-expect failed: ' + p.stderr[-300:])
    return json.loads(p.stdout)['samples'][0]


def cli_records(args, cwd, log):
    env = {'AST_GREP_VERIF_LOG': log}
    rc, out, err = sg(args, cwd=cwd, env=env, timeout=120)
    recs = []
    for line in out.decode('utf-8', 'replace').splitlines():
        line = line.strip()
        if line:
            recs.append(json.loads(line))
    return rc, recs, err.decode('utf-8', 'replace')


def prune_events(log):
    out = []
    if os.path.exists(log):
        for line in open(log, encoding='utf-8', errors='replace'):
            if '"prune_violation"' in line:
                out.append(json.loads(line))
        os.unlink(log)
    return out


def run_case(rep, lang, files, q, want, work, tag):
    """one query against one directory"""
    log = os.path.join(work, f'log-{tag}.jsonl')
    d = os.path.join(work, 'src')
    if 'rule' in q:
        rp = os.path.join(work, f'rule-{tag}.yml')
        open(rp, 'w').write(q['rule'])
        args = ['scan', '-r', rp, '--json=stream', '.']
    else:
        args = ['run', '-p', q['pattern'], '-l', lang, '--json=stream']
        if q.get('strictness'):
            args += ['--strictness', q['strictness']]
        if q.get('selector'):
            args += ['--selector', q['selector']]
        args += ['.']
    rc, recs, err = cli_records(args, d, log)
    got = sorted((r['file'].lstrip('./'), r['range']['byteOffset']['start'], r['range']['byteOffset']['end']) for r in recs)
    exp = sorted((path, a, b) for path, rs in want.items() if rs is not None for a, b in rs)
    rep['evaluations'] += 1
    replay = {'monitor': 'py:c01_cli', 'lang': lang, 'files': files, 'query': q}
    strict = q.get('strictness', 'smart') if 'pattern' in q else 'rule'
    evs = prune_events(log)
    for ev in evs:
        add_violation(rep, f"C01/cli-prefilter/would_match/strictness={strict}" if ev['site'] == 'cli.fixed_string' else f"C01/cli-prune/{ev['site']}",
                      f"{' '.join(args[:6])}: {ev['site']} skipped work that matches ({ev['detail']})", replay)
    if got != exp:
        missing = [x for x in exp if x not in got]
        extra = [x for x in got if x not in exp]
        explained = evs and not extra and all(any(m[0] in ev['detail'] for ev in evs) for m in missing)
        if not explained:
            kind = 'drops' if missing and not extra else 'invents' if extra and not missing else 'differs'
            add_violation(rep, f"C01/cli/{kind}/{'scan' if 'rule' in q else 'run'}/strictness={strict}",
                          f"{' '.join(args[:8])}: CLI reports {len(got)} matches, library {len(exp)}; missing {missing[:3]} extra {extra[:3]} stderr={err[-200:]!r}", replay)
    if exp:
        rep['_nt'].add(hashlib.sha1(json.dumps([lang, q, sorted(files)], sort_keys=True).encode()).hexdigest())
    return len(exp)


def run_lang(ctx, lang, per_file):
    rep = new_report(); rep['_nt'] = set()
    work = os.path.join(ctx.workdir(), lang)
    os.makedirs(work, exist_ok=True)
    files = {}
    for name, text in common.corpus(lang)[: (14 if ctx.thorough else 6)]:
        if 'ast-grep-ignore' in text:
            continue
        base = os.path.splitext(name)[0]
        files[f'{base}.{EXT[lang]}'] = text
    d = os.path.join(work, 'src')
    shutil.rmtree(d, ignore_errors=True)
    common.write_tree(d, files)
    ex = expect(lang, files, ctx.seed, per_file)
    for i, (q, want) in enumerate(zip(ex['queries'], ex['expected'])):
        run_case(rep, lang, files, q, want, work, f'{lang}-{i}')
    count(rep, f'lang.{lang}', len(ex['queries']))
    if ex['queries']:
        rep['samples'].append({'lang': lang, 'query': ex['queries'][0], 'files': len(files)})
    return rep


def run(ctx):
    import concurrent.futures as cf
    rep = new_report(); nt = set()
    ctx.workdir()
    langs = sorted(EXT)
    per_file = 6 if ctx.thorough else 3
    with cf.ThreadPoolExecutor(max_workers=common.NCPU) as ex:
        subs = list(ex.map(lambda l: run_lang(ctx, l, per_file), langs))
    for sub in subs:
        nt |= sub.pop('_nt')
        rep['evaluations'] += sub['evaluations']
        for kk, v in sub['counters'].items():
            count(rep, kk, v)
        for v in sub['violations']:
            add_violation(rep, v['signature'], v['what'], v['replay'])
        if len(rep['samples']) < 4:
            rep['samples'] += sub['samples'][:1]
    rep['distinct_nontrivial'] = len(nt)
    ctx.cleanup()
    return rep


def replay(ctx, r):
    rep = new_report(); rep['_nt'] = set()
    work = ctx.workdir()
    d = os.path.join(work, 'src')
    common.write_tree(d, r['files'])
    ex = expect(r['lang'], r['files'], ctx.seed, 0, queries=[r['query']])
    run_case(rep, r['lang'], r['files'], r['query'], ex['expected'][0], work, 'replay')
    rep['distinct_nontrivial'] = len(rep.pop('_nt'))
    ctx.cleanup()
    return rep
