"""C09: all front ends report the same findings for the same rules and text; LSP notification histories."""
import os, json, re, shutil, hashlib, time
import common
from common import sg, new_report, add_violation, count
from lspclient import Lsp

RULES = [
    {'rule': {'pattern': 'foo($A)'}, 'message': 'found $A'},
    {'rule': {'pattern': 'bar($$$ARGS)'}, 'message': 'args $$$ARGS', 'note': 'a note'},
    {'rule': {'pattern': '$X + $Y'}, 'message': 'sum of $X and $Y'},
    {'rule': {'kind': 'number'}, 'message': ''},
    {'rule': {'pattern': 'let $V = $E'}, 'message': 'decl $V', 'fix': 'const $V = $E'},
    {'rule': {'kind': 'string'}, 'message': 'string literal', 'note': 'strings are suspicious'},
    {'rule': {'pattern': 'foo($A)'}, 'message': 'nested $A', 'fix': 'bar($A)'},
]
SEVS = ['error', 'warning', 'info', 'hint', 'off']
LINES = ['foo(\n  1\n);', 'bar(2,\n    x);', 'let u = a +\n  "s";', '/* 日本 */ foo(é);', 'foo(1);', 'bar(2, x);', 'let v = a + b;', 'foo(foo("s"));', 'baz();', 'x = "é" + y;', 'bar();', '  foo(z)  ;', 'let w = 3']


def gen_rules(rng):
    rs = []
    for i, base in enumerate(rng.sample(RULES, rng.randint(1, 6))):
        r = dict(base); r['id'] = f'r{i}'; r['language'] = 'JavaScript'
        if rng.random() < 0.85:
            r['severity'] = rng.choice(SEVS)
        rs.append(r)
    return rs


def gen_text(rng):
    return '\n'.join(rng.choice(LINES) for _ in range(rng.randint(1, 6))) + '\n'


def key_json(r):
    return (r['ruleId'], r['range']['start']['line'], r['range']['start']['column'], r['range']['end']['line'], r['range']['end']['column'], r.get('message', ''))


def write_project(d, rules, text):
    tree = {'sgconfig.yml': 'ruleDirs: [rules]\ntestConfigs:\n  - testDir: tests\n', 'a.js': text}
    for r in rules:
        tree[f'rules/{r["id"]}.yml'] = json.dumps(r)
    common.write_tree(d, tree)
    return tree


def lsp_diag_keys(diags):
    return sorted((d.get('code'), d['range']['start']['line'], d['range']['start']['character'], d['range']['end']['line'], d['range']['end']['character'], d['message']) for d in diags if d.get('code') != 'unused-suppression')


def front_ends(rep, ctx, work, k, rng):
    rules = gen_rules(rng)
    text = gen_text(rng)
    d = os.path.join(work, f'p{k}')
    shutil.rmtree(d, ignore_errors=True)
    tree = write_project(d, rules, text)
    replay = {'monitor': 'py:c09', 'part': 'front-ends', 'rules': rules, 'text': text}
    by_id = {r['id']: r for r in rules}
    rc, out, err = sg(['scan', 'a.js', '--json=stream'], cwd=d)
    rep['evaluations'] += 1
    try:
        base = sorted(key_json(json.loads(l)) for l in out.decode().splitlines() if l.strip())
    except Exception as ex:
        add_violation(rep, 'C09/json/stream-unreadable', str(ex), replay); return
    if len(base) >= 2 and len({b[0] for b in base}) >= 2:
        rep['_nt'].add(hashlib.sha1(json.dumps([rules, text]).encode()).hexdigest())
    # JSON styles
    for style in ('pretty', 'compact'):
        rc, out, err = sg(['scan', 'a.js', f'--json={style}'], cwd=d)
        rep['evaluations'] += 1
        try:
            got = sorted(key_json(r) for r in json.loads(out.decode()))
        except Exception as ex:
            add_violation(rep, f'C09/json/{style}-unreadable', str(ex), replay); continue
        if got != base:
            add_violation(rep, f'C09/json/{style}-differs', f'--json={style}: {got[:3]} vs stream {base[:3]}', replay)
    # stdin, one rule at a time
    got = []
    for r in rules:
        rc, out, err = sg(['scan', '--stdin', '-r', f'rules/{r["id"]}.yml', '--json=stream'], cwd=d, stdin=text.encode())
        rep['evaluations'] += 1
        try:
            got += [key_json(json.loads(l)) for l in out.decode().splitlines() if l.strip()]
        except Exception as ex:
            add_violation(rep, 'C09/stdin/unreadable', f'{ex}: {err[-200:]!r}', replay)
    got.sort()
    if got != base:
        extra = [g for g in got if g not in base]; missing = [b for b in base if b not in got]
        off_ids = {r['id'] for r in rules if r.get('severity') == 'off'}
        if not missing and extra and all(g[0] in off_ids for g in extra):
            add_violation(rep, 'C09/stdin/severity-off-reported', f'scan --stdin reports findings of rules whose severity is off: {extra[:3]}', replay)
        else:
            add_violation(rep, 'C09/stdin/differs', f'--stdin: extra {extra[:3]} missing {missing[:3]}', replay)
    # GitHub format (hint is not representable there)
    rc, out, err = sg(['scan', 'a.js', '--format', 'github'], cwd=d)
    rep['evaluations'] += 1
    gh = []
    for line in out.decode().splitlines():
        m = re.match(r'^::(error|warning|notice) file=([^,]*),line=(\d+),endLine=(\d+),title=([^:]*)::(.*)$', line)
        if m:
            gh.append((m.group(5), int(m.group(3)) - 1, int(m.group(4)) - 1, m.group(6).replace('%0A', '\n').replace('%0D', '\r').replace('%25', '%')))
    want = sorted((b[0], b[1], b[3], b[5] if b[5] else '') for b in base if by_id[b[0]].get('severity', 'hint') in ('error', 'warning', 'info'))
    gh_cmp = sorted((g[0], g[1], g[2], g[3]) for g in gh)
    if [(a, b, c) for a, b, c, _ in gh_cmp] != [(a, b, c) for a, b, c, _ in want]:
        add_violation(rep, 'C09/github/differs', f'--format github: {gh_cmp[:4]} vs JSON {want[:4]}', replay)
    else:
        bad = [(g, w) for g, w in zip(gh_cmp, want) if g[3] != w[3] and w[3]]
        if bad:
            add_violation(rep, 'C09/github/message', f'{bad[:2]}', replay)
    # short report style
    rc, out, err = sg(['scan', 'a.js', '--report-style', 'short', '--color', 'never'], cwd=d)
    rep['evaluations'] += 1
    sh = []
    for line in out.decode().splitlines():
        m = re.match(r'^a\.js:(\d+):(\d+): (\w+)\[([^\]]+)\]: ?(.*)$', line)
        if m:
            sh.append((m.group(4), int(m.group(1)) - 1, int(m.group(2)) - 1))
    # the diff-style report of a FIXABLE rule shows each piece of text once: nested matches of such a rule are folded
    # into the outer diff by design, and the style is not one of the front ends the statement lists -- it is
    # compared for the rules without fix only
    fixable = {r['id'] for r in rules if 'fix' in r}
    want = sorted((b[0], b[1], b[2]) for b in base if b[0] not in fixable)
    sh = [x for x in sh if x[0] not in fixable]
    if sorted(sh) != want:
        add_violation(rep, 'C09/short/differs', f'--report-style short: {sorted(sh)[:4]} vs JSON {want[:4]}; out {out.decode()[:200]!r}', replay)
    # sg test verdicts
    tests = {}
    active = [r for r in rules if r.get('severity') != 'off']
    for r in active:
        n = len([b for b in base if b[0] == r['id']])
        tests[r['id']] = n
        t = {'id': r['id'], 'valid': [text] if n == 0 else [], 'invalid': [text] if n else []}
        common.write_tree(d, {f'tests/{r["id"]}-test.yml': json.dumps(t)})
    if active:
        rc, out, err = sg(['test', '--skip-snapshot-tests'], cwd=d)
        rep['evaluations'] += 1
        if rc != 0:
            add_violation(rep, 'C09/test/agreeing-filing-fails', f'test exits {rc} although texts are filed as the scan says: {out.decode("utf-8", "replace")[-300:]!r}', replay)
        r = rng.choice(active)
        n = tests[r['id']]
        t = {'id': r['id'], 'valid': [text] if n else [], 'invalid': [text] if n == 0 else []}
        common.write_tree(d, {f'tests/{r["id"]}-test.yml': json.dumps(t)})
        rc, out, err = sg(['test', '--skip-snapshot-tests'], cwd=d)
        rep['evaluations'] += 1
        if rc == 0:
            add_violation(rep, 'C09/test/flipped-filing-passes', f'test exits 0 although {r["id"]} is filed against the scan result ({n} findings)', replay)
    # LSP
    l = Lsp(d)
    try:
        l.initialize()
        uri = 'file://' + os.path.join(d, 'a.js')
        l.notify('textDocument/didOpen', {'textDocument': {'uri': uri, 'languageId': 'javascript', 'version': 1, 'text': text}})
        quiet = l.wait_quiet(settle=0.3)
        rep['evaluations'] += 1
        ds = [x for x in l.diagnostics() if x[1] == uri]
        if not quiet or not ds:
            if base:
                rep['inconclusive'] += 1
        else:
            got = lsp_diag_keys(ds[-1][3])
            want = sorted((b[0], b[1], b[2], b[3], b[4], (b[5] if b[5] else b[0]) + (('\n\n' + by_id[b[0]]['note']) if by_id[b[0]].get('note') else '')) for b in base)
            if got != want:
                add_violation(rep, 'C09/lsp/differs', f'publishDiagnostics {got[:3]} vs JSON {want[:3]}', replay)
    finally:
        l.close()
    shutil.rmtree(d, ignore_errors=True)


# ---------------------------------------------------------------- (b) notification histories

def ref_diags(cache, d, text):
    if text in cache:
        return cache[text]
    l = Lsp(d)
    try:
        l.initialize()
        uri = 'file://' + os.path.join(d, 'ref.js')
        l.notify('textDocument/didOpen', {'textDocument': {'uri': uri, 'languageId': 'javascript', 'version': 1, 'text': text}})
        ok = l.wait_quiet(settle=0.3)
        ds = [x for x in l.diagnostics() if x[1] == uri]
        cache[text] = lsp_diag_keys(ds[-1][3]) if ok and ds else None
    finally:
        l.close()
    return cache[text]


def history(rep, ctx, work, k, rng, cache, d, binary=None, extra_env=None):
    uris = [f'file://{d}/{n}.js' for n in ('u1', 'u2', 'u3')][:rng.randint(1, 3)]
    state = {u: {'open': False, 'version': 0, 'best': None} for u in uris}
    events = []
    for _ in range(rng.randint(3, 10)):
        u = rng.choice(uris); st = state[u]
        if not st['open']:
            st['version'] += 1
            text = gen_text(rng)
            events.append(('open', u, st['version'], text)); st['open'] = True; st['best'] = (st['version'], text)
        else:
            c = rng.random()
            if c < 0.15:
                events.append(('close', u, None, None)); st['open'] = False; st['best'] = None
            elif c < 0.3 and st['version'] > 1:
                # a stale version delivered late
                events.append(('change', u, st['best'][0] - 1, gen_text(rng)))
            else:
                st['version'] += 1
                text = gen_text(rng)
                events.append(('change', u, st['version'], text)); st['best'] = (st['version'], text)
    policy = rng.choice(['immediate', 'manual', 'manual'])
    delays = None
    if rng.random() < 0.6:
        delays = f'lsp.open.before_insert={rng.choice([0, 2000, 20000])},lsp.change.before_lookup={rng.choice([0, 2000, 20000])},lsp.change.before_publish={rng.choice([0, 1, 3, 8])};seed={rng.randint(1, 10**6)}'
    play(rep, work, d, events, uris, state, policy, delays, k, rng, cache, binary, extra_env)


def replay_history(rep, work, d, events, policy, delays, k):
    import random
    uris = sorted({e[1] for e in events})
    state = {u: {'open': False, 'version': 0, 'best': None} for u in uris}
    for ev, u, v, text in events:
        st = state[u]
        if ev == 'wait':
            continue
        if ev == 'open':
            st['open'] = True; st['best'] = (v, text)
        elif ev == 'close':
            st['open'] = False; st['best'] = None
        elif st['best'] is None or v > st['best'][0]:
            st['best'] = (v, text)
    play(rep, work, d, events, uris, state, policy, delays, f'r{k}', random.Random(k), {})


def play(rep, work, d, events, uris, state, policy, delays, k, rng, cache, binary=None, extra_env=None):
    env = dict(extra_env or {})
    log = os.path.join(work, f'lsplog-{k}.jsonl')
    env['AST_GREP_VERIF_LOG'] = log
    if delays:
        env['AST_GREP_VERIF_DELAYS'] = delays
    l = Lsp(d, env=env, folders_policy=policy, binary=binary)
    replay = {'monitor': 'py:c09', 'part': 'history', 'events': events, 'policy': policy, 'delays': env.get('AST_GREP_VERIF_DELAYS')}
    try:
        l.initialize()
        answer_after = rng.randint(0, 3)
        for i, (ev, u, v, text) in enumerate(events):
            if ev == 'open':
                l.notify('textDocument/didOpen', {'textDocument': {'uri': u, 'languageId': 'javascript', 'version': v, 'text': text}})
            elif ev == 'change':
                l.notify('textDocument/didChange', {'textDocument': {'uri': u, 'version': v}, 'contentChanges': [{'text': text}]})
            elif ev == 'wait':
                l.answer_pending_folders(); l.wait_quiet(settle=0.3, timeout=3)
            else:
                l.notify('textDocument/didClose', {'textDocument': {'uri': u}})
            if policy == 'manual' and i % (answer_after + 1) == answer_after:
                time.sleep(0.002)
                l.answer_pending_folders()
            if rng.random() < 0.2:
                time.sleep(rng.choice([0.001, 0.01]))
        # bounded progress: keep answering folder requests until quiet
        quiet = False
        for _ in range(40):
            l.answer_pending_folders()
            if l.wait_quiet(settle=0.35, timeout=1.0):
                quiet = True; break
        rep['evaluations'] += 1
        if not quiet:
            rep['inconclusive'] += 1
            return
        # liveness: the server must still answer a request (bounded progress); a silent server whose
        # threads all sleep without consuming CPU is a deadlock, anything else is inconclusive
        probe = l.request('textDocument/codeAction', {'textDocument': {'uri': uris[0]}, 'range': {'start': {'line': 0, 'character': 0}, 'end': {'line': 0, 'character': 1}}, 'context': {'diagnostics': []}}, timeout=5)
        if probe is None and l.alive:
            import c11_cli
            samples = []
            for _ in range(3):
                samples.append(c11_cli.proc_cpu_and_states(l.p.pid)); time.sleep(0.5)
            cpus = [x[0] for x in samples]
            if None not in cpus and cpus[0] == cpus[2] and all(st in ('S', 'D') for st in samples[2][1]):
                add_violation(rep, 'C09/lsp/server-stops-responding', f'after {[(e[0], e[1].rsplit("/", 1)[1], e[2]) for e in events]} the server answers nothing more: all threads asleep, no CPU progress (deadlock)', replay)
            else:
                rep['inconclusive'] += 1
            return
        pubs = l.diagnostics()
        server = []
        if os.path.exists(log):
            for line in open(log):
                if '"lsp_' in line:
                    server.append(json.loads(line))

        def open_registered_late(u):
            """known-finding predicate: the registration of a didOpen (which waits for the client's
            workspaceFolders answer) happened after the server had already processed a notification
            that the client sent LATER for the same document"""
            client_idx = {}
            for i, (ev, uu, v, _t) in enumerate(events):
                if uu == u:
                    client_idx.setdefault((ev, v), i)
            closes = [i for i, (ev, uu, v, _t) in enumerate(events) if uu == u and ev == 'close']
            seen_later = []   # client indices of change/close events already processed by the server
            n_close = 0
            for e in server:
                if e.get('uri') != u:
                    continue
                if e['ev'] == 'lsp_change_lookup':
                    seen_later.append(client_idx.get(('change', e['version']), -1))
                elif e['ev'] == 'lsp_close':
                    if n_close < len(closes):
                        seen_later.append(closes[n_close])
                    n_close += 1
                elif e['ev'] == 'lsp_open_insert':
                    oi = client_idx.get(('open', e['version']), 10 ** 9)
                    if any(x > oi for x in seen_later):
                        return True
            return False

        for u in uris:
            st = state[u]
            if not st['open']:
                continue
            want = ref_diags(cache, d, st['best'][1])
            if want is None:
                rep['inconclusive'] += 1; continue
            mine = [p for p in pubs if p[1] == u]
            got = lsp_diag_keys(mine[-1][3]) if mine else None
            if got != want:
                sig = 'C09/lsp/open-registered-after-later-notifications' if open_registered_late(u) else 'C09/lsp/stale-diagnostics'
                add_violation(rep, sig, f'{u.rsplit("/", 1)[1]}: last published (version {mine[-1][2] if mine else None}) {str(got)[:160]} but the highest version received is {st["best"][0]} with {str(want)[:160]}', replay)
        n_u = max(len([e for e in events if e[1] == u]) for u in uris)
        if n_u >= 3:
            rep['_nt'].add(hashlib.sha1(json.dumps([events, policy, env.get('AST_GREP_VERIF_DELAYS')]).encode()).hexdigest())
        rep['_inter'].add(hashlib.sha1(json.dumps([(e['ev'], e.get('uri'), e.get('version')) for e in map(json.loads, open(log))] if os.path.exists(log) else []).encode()).hexdigest()[:10])
    finally:
        l.close()
        if os.path.exists(log):
            os.unlink(log)


def run(ctx):
    rep = new_report(); rep['_nt'] = set(); rep['_inter'] = set()
    work = ctx.workdir()
    n_front = 300 if ctx.thorough else 25
    for k in range(n_front):
        front_ends(rep, ctx, work, k, ctx.rng)
    # histories share one project
    d = os.path.join(work, 'hist')
    rules = [dict(RULES[0], id='h0', language='JavaScript', severity='error'), dict(RULES[1], id='h1', language='JavaScript'), dict(RULES[3], id='h2', language='JavaScript', severity='warning')]
    write_project(d, rules, 'foo(1)\n')
    cache = {}
    n_hist = 1200 if ctx.thorough else 96
    import concurrent.futures as cf, random

    def one_hist(k, binary=None, extra_env=None):
        sub = new_report(); sub['_nt'] = set(); sub['_inter'] = set()
        history(sub, ctx, work, k, random.Random(f'C09-{ctx.seed}-{k}'), cache, d, binary, extra_env)
        return sub

    def merge_subs(subs):
        for sub in subs:
            rep['_nt'] |= sub.pop('_nt'); rep['_inter'] |= sub.pop('_inter')
            rep['evaluations'] += sub['evaluations']; rep['inconclusive'] += sub['inconclusive']
            for kk, v in sub['counters'].items():
                count(rep, kk, v)
            for v in sub['violations']:
                add_violation(rep, v['signature'], v['what'], v['replay'])
            rep['notes'] += [x for x in sub['notes'] if x not in rep['notes']][:5]
    with cf.ThreadPoolExecutor(max_workers=8) as ex:
        merge_subs(list(ex.map(one_hist, range(n_hist))))
    if ctx.thorough or os.environ.get('VERIF_SANITIZE'):
        # the same histories on a ThreadSanitizer build of the binary (the server runs handlers on several threads)
        import sanitize
        ok, msg = sanitize.build_tsan()
        if not ok:
            rep['inconclusive'] += 1
            rep['notes'].append('tsan: build unavailable: ' + msg[-300:])
        else:
            logbase = os.path.join(work, 'tsan-lsp')
            env = sanitize.tsan_env(logbase)
            with cf.ThreadPoolExecutor(max_workers=8) as ex:
                merge_subs(list(ex.map(lambda k: one_hist(100000 + k, sanitize.SG_TSAN, env), range(64))))
            count(rep, 'tsan_histories', 64)
            for tr in sanitize.collect_tsan(logbase):
                sites = sanitize.classify_tsan(tr)
                if sites:
                    count(rep, 'tsan_reports_ast_grep')
                    add_violation(rep, f"C09/tsan/{tr['kind'].replace(' ', '-')}/{'|'.join(sorted(set(sites)))}", f"ThreadSanitizer {tr['kind']} in the language server: {tr['summary']}",
                                  {'monitor': 'py:c09', 'part': 'tsan', 'stacks': [st[:10] for st in tr['stacks'][:2]]})
                else:
                    count(rep, 'tsan_reports_third_party')
                    note = f"tsan third-party observation: {tr['kind']}: {tr['summary'][:160]}"
                    if note not in rep['notes'] and len(rep['notes']) < 20:
                        rep['notes'].append(note)
    count(rep, 'histories', n_hist)
    count(rep, 'front_end_cases', n_front)
    rep['counters']['distinct_server_side_interleavings'] = len(rep.pop('_inter'))
    rep['distinct_nontrivial'] = len(rep.pop('_nt'))
    rep['samples'].append({'front_ends': ['scan FILE --json=stream|pretty|compact', 'scan --stdin -r', '--format github', '--report-style short', 'test --skip-snapshot-tests', 'lsp publishDiagnostics'], 'history': [['open', 'u1', 1], ['change', 'u1', 2], ['change', 'u1', 1], ['close', 'u1']]})
    ctx.cleanup()
    return rep


def replay(ctx, r):
    rep = new_report(); rep['_nt'] = set(); rep['_inter'] = set()
    work = ctx.workdir()
    if r.get('part') == 'front-ends':
        class R:  # replays use the recorded rules/text
            pass
        import random
        rng = random.Random(1)
        d = os.path.join(work, 'p0')
        # re-run the comparison on the recorded case
        orig_rules, orig_text = gen_rules, gen_text
        try:
            globals()['gen_rules'] = lambda _r: r['rules']
            globals()['gen_text'] = lambda _r: r['text']
            front_ends(rep, ctx, work, 0, rng)
        finally:
            globals()['gen_rules'] = orig_rules; globals()['gen_text'] = orig_text
    else:
        # schedule dependent: replay the recorded notification list a few times
        d = os.path.join(work, 'hist')
        rules = [dict(RULES[0], id='h0', language='JavaScript', severity='error'), dict(RULES[1], id='h1', language='JavaScript'), dict(RULES[3], id='h2', language='JavaScript', severity='warning')]
        write_project(d, rules, 'foo(1)\n')
        events = [(e[0], f'file://{d}/' + e[1].rsplit('/', 1)[-1], e[2], e[3]) for e in r['events']]
        for i in range(r.get('repeat', 6)):
            replay_history(rep, work, d, events, r.get('policy', 'immediate'), r.get('delays'), i)
    rep.pop('_nt'); rep.pop('_inter')
    ctx.cleanup()
    return rep
